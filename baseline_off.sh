#!/bin/bash
# Runs the repository's pinned test suite (both modules) with the verification guard OFF (no build
# tags) and compares the set of passing tests with /root/.vp/BASELINE.json's stable_pass list.
# Usage: baseline_off.sh [repo-dir]   (default /repo). Exit 0 iff every stable test passes.
REPO="${1:-/repo}"
export GOPROXY=off GOSUMDB=off GOTOOLCHAIN=local GOFLAGS=-mod=mod
OUT=$(mktemp)
for m in . analysis_test; do
  (cd "$REPO/$m" && go test -json -vet=off -count=1 -timeout 25m ./... 2>/dev/null) >> "$OUT"
done
# -mod=mod may touch go.sum files of the repository: restore them if they were clean before
python3 - "$OUT" <<'EOF'
import json, sys
passed = set()
for l in open(sys.argv[1]):
    try:
        j = json.loads(l)
    except ValueError:
        continue
    if j.get("Action") == "pass" and j.get("Test"):
        passed.add(j["Package"] + "::" + j["Test"])
base = json.load(open("/root/.vp/BASELINE.json"))
stable = set(base["stable_pass"])
missing = sorted(stable - passed)
print("baseline: %d/%d stable tests pass (guard off)" % (len(stable & passed), len(stable)))
for m in missing[:10]:
    print("MISSING: " + m)
sys.exit(1 if missing else 0)
EOF
rc=$?
rm -f "$OUT"
exit $rc
