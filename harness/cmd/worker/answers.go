package main

import (
	"encoding/json"
	"fmt"
	"runtime"
	"sort"
	"strings"
	"sync"

	"verif/harness/wproto"

	"github.com/go-openapi/analysis"
	"github.com/go-openapi/spec"
)

var upperMethods = []string{"GET", "PUT", "POST", "DELETE", "OPTIONS", "HEAD", "PATCH"}

// ZeroArgGetters are all public query methods without arguments.
var ZeroArgGetters = []string{
	"AllPaths", "Operations", "OperationIDs", "OperationMethodPaths",
	"RequiredConsumes", "RequiredProduces", "RequiredSecuritySchemes",
	"AllDefinitions", "SchemasWithAllOf",
	"AllReferences", "AllRefs", "AllDefinitionReferences", "AllParameterReferences", "AllResponseReferences",
	"AllPathItemReferences", "AllItemsReferences",
	"ParameterPatterns", "HeaderPatterns", "ItemsPatterns", "SchemaPatterns", "AllPatterns",
	"ParameterEnums", "HeaderEnums", "ItemsEnums", "SchemaEnums", "AllEnums",
}

// PerOpGetters take (METHOD, path).
var PerOpGetters = []string{
	"OperationFor", "ConsumesFor", "ProducesFor", "SecurityRequirementsFor", "SecurityDefinitionsFor",
	"SecurityDefinitionsForRequirements", "ParamsFor", "SafeParamsFor/continue", "SafeParamsFor/stop",
}

// PerIDGetters take an operation id.
var PerIDGetters = []string{"OperationForName", "ParametersFor", "SafeParametersFor/continue", "SafeParametersFor/stop"}

const (
	missPath = "/__no_such_path__"
	missID   = "__no_such_operation__"
)

// enumerateCalls lists every query the document gives arguments for: all zero-argument getters,
// every method x (path of the document + one missing path), every non-empty operation id that is
// unique in the document + one unknown id.
func enumerateCalls(doc *spec.Swagger) []wproto.Call {
	var calls []wproto.Call
	for _, g := range ZeroArgGetters {
		calls = append(calls, wproto.Call{M: g})
	}
	paths := []string{missPath}
	idCount := map[string]int{}
	if doc.Paths != nil {
		for p, pi := range doc.Paths.Paths {
			paths = append(paths, p)
			for _, op := range []*spec.Operation{pi.Get, pi.Put, pi.Post, pi.Delete, pi.Options, pi.Head, pi.Patch} {
				if op != nil && op.ID != "" {
					idCount[op.ID]++
				}
			}
		}
	}
	sort.Strings(paths)
	for _, p := range paths {
		for _, m := range upperMethods {
			for _, g := range PerOpGetters {
				calls = append(calls, wproto.Call{M: g, A: []string{m, p}})
			}
		}
	}
	ids := []string{missID}
	for id, n := range idCount {
		if n == 1 {
			ids = append(ids, id)
		}
	}
	sort.Strings(ids)
	for _, id := range ids {
		for _, g := range PerIDGetters {
			calls = append(calls, wproto.Call{M: g, A: []string{id}})
		}
	}
	return calls
}

func answers(a *analysis.Spec, doc *spec.Swagger, calls []wproto.Call) []wproto.Answer {
	out := make([]wproto.Answer, 0, len(calls))
	for _, c := range calls {
		out = append(out, wproto.Answer{Call: c, Ans: answer(a, doc, c)})
	}
	return out
}

func sortedCopy(s []string) []string {
	out := append([]string{}, s...)
	sort.Strings(out)
	return out
}

func raw(v interface{}) json.RawMessage {
	b, err := json.Marshal(v)
	if err != nil {
		return json.RawMessage(fmt.Sprintf(`{"marshalError":%q}`, err.Error()))
	}
	return b
}

type schemaEntry struct {
	Name       string          `json:"name"`
	Ref        string          `json:"ref"`
	TopLevel   bool            `json:"topLevel"`
	Schema     json.RawMessage `json:"schema"`
	Resolved   json.RawMessage `json:"resolved,omitempty"`
	ResolveErr string          `json:"resolveErr,omitempty"`
}

func schemaEntries(doc *spec.Swagger, refs []analysis.SchemaRef) []schemaEntry {
	out := make([]schemaEntry, 0, len(refs))
	for _, sr := range refs {
		e := schemaEntry{Name: sr.Name, Ref: sr.Ref.String(), TopLevel: sr.TopLevel, Schema: raw(sr.Schema)}
		// resolve the way callers do
		v, _, err := sr.Ref.GetPointer().Get(doc)
		if err != nil {
			e.ResolveErr = err.Error()
		} else {
			e.Resolved = raw(v)
		}
		out = append(out, e)
	}
	sort.Slice(out, func(i, j int) bool {
		if out[i].Ref != out[j].Ref {
			return out[i].Ref < out[j].Ref
		}
		return string(out[i].Schema) < string(out[j].Schema)
	})
	return out
}

type secReq struct {
	Name   string   `json:"name"`
	Scopes []string `json:"scopes"`
}

func secReqs(in [][]analysis.SecurityRequirement) [][]secReq {
	if in == nil {
		return nil
	}
	out := make([][]secReq, 0, len(in))
	for _, rs := range in {
		l := make([]secReq, 0, len(rs))
		for _, r := range rs {
			l = append(l, secReq{Name: r.Name, Scopes: r.Scopes})
		}
		sort.Slice(l, func(i, j int) bool { return l[i].Name < l[j].Name })
		out = append(out, l)
	}
	return out
}

type paramsAnswer struct {
	Params    map[string]json.RawMessage `json:"params,omitempty"`
	List      []string                   `json:"list,omitempty"`
	Callbacks []string                   `json:"callbacks,omitempty"`
}

// answer evaluates one call and renders its result in a canonical form: lists that the library
// builds by iterating maps are sorted, everything else is the JSON of the returned value.
// A panic inside the library is part of the answer.
func answer(a *analysis.Spec, doc *spec.Swagger, c wproto.Call) (ans json.RawMessage) {
	defer func() {
		if r := recover(); r != nil {
			ans = raw(map[string]string{"panic": fmt.Sprint(r)})
		}
	}()
	arg := func(i int) string {
		if i < len(c.A) {
			return c.A[i]
		}
		return ""
	}
	opFor := func() *spec.Operation {
		op, ok := a.OperationFor(arg(0), arg(1))
		if !ok {
			return nil
		}
		return op
	}
	noOp := raw(map[string]bool{"noOperation": true})
	switch c.M {
	case "AllPaths":
		return raw(a.AllPaths())
	case "Operations":
		return raw(a.Operations())
	case "OperationIDs":
		return raw(sortedCopy(a.OperationIDs()))
	case "OperationMethodPaths":
		return raw(sortedCopy(a.OperationMethodPaths()))
	case "RequiredConsumes":
		return raw(sortedCopy(a.RequiredConsumes()))
	case "RequiredProduces":
		return raw(sortedCopy(a.RequiredProduces()))
	case "RequiredSecuritySchemes":
		return raw(sortedCopy(a.RequiredSecuritySchemes()))
	case "AllDefinitions":
		return raw(schemaEntries(doc, a.AllDefinitions()))
	case "SchemasWithAllOf":
		return raw(schemaEntries(doc, a.SchemasWithAllOf()))
	case "AllReferences":
		return raw(sortedCopy(a.AllReferences()))
	case "AllRefs":
		var l []string
		for _, r := range a.AllRefs() {
			l = append(l, r.String())
		}
		return raw(sortedCopy(l))
	case "AllDefinitionReferences":
		return raw(sortedCopy(a.AllDefinitionReferences()))
	case "AllParameterReferences":
		return raw(sortedCopy(a.AllParameterReferences()))
	case "AllResponseReferences":
		return raw(sortedCopy(a.AllResponseReferences()))
	case "AllPathItemReferences":
		return raw(sortedCopy(a.AllPathItemReferences()))
	case "AllItemsReferences":
		return raw(sortedCopy(a.AllItemsReferences()))
	case "ParameterPatterns":
		return raw(a.ParameterPatterns())
	case "HeaderPatterns":
		return raw(a.HeaderPatterns())
	case "ItemsPatterns":
		return raw(a.ItemsPatterns())
	case "SchemaPatterns":
		return raw(a.SchemaPatterns())
	case "AllPatterns":
		return raw(a.AllPatterns())
	case "ParameterEnums":
		return raw(a.ParameterEnums())
	case "HeaderEnums":
		return raw(a.HeaderEnums())
	case "ItemsEnums":
		return raw(a.ItemsEnums())
	case "SchemaEnums":
		return raw(a.SchemaEnums())
	case "AllEnums":
		return raw(a.AllEnums())

	case "OperationFor":
		op, ok := a.OperationFor(arg(0), arg(1))
		return raw(map[string]interface{}{"found": ok, "op": op})
	case "ConsumesFor":
		op := opFor()
		if op == nil {
			return noOp
		}
		return raw(sortedCopy(a.ConsumesFor(op)))
	case "ProducesFor":
		op := opFor()
		if op == nil {
			return noOp
		}
		return raw(sortedCopy(a.ProducesFor(op)))
	case "SecurityRequirementsFor":
		op := opFor()
		if op == nil {
			return noOp
		}
		return raw(secReqs(a.SecurityRequirementsFor(op)))
	case "SecurityDefinitionsFor":
		op := opFor()
		if op == nil {
			return noOp
		}
		return raw(a.SecurityDefinitionsFor(op))
	case "SecurityDefinitionsForRequirements":
		op := opFor()
		if op == nil {
			return noOp
		}
		var out []map[string]spec.SecurityScheme
		for _, reqs := range a.SecurityRequirementsFor(op) {
			out = append(out, a.SecurityDefinitionsForRequirements(reqs))
		}
		return raw(out)
	case "ParamsFor":
		return raw(paramsMap(a.ParamsFor(arg(0), arg(1)), nil))
	case "SafeParamsFor/continue", "SafeParamsFor/stop":
		var cbs []string
		cont := strings.HasSuffix(c.M, "/continue")
		res := a.SafeParamsFor(arg(0), arg(1), func(p spec.Parameter, _ error) bool {
			cbs = append(cbs, p.Ref.String())
			return cont
		})
		return raw(paramsMap(res, cbs))

	case "OperationForName":
		m, p, op, ok := a.OperationForName(arg(0))
		return raw(map[string]interface{}{"found": ok, "method": m, "path": p, "op": op})
	case "ParametersFor":
		return raw(paramsList(a.ParametersFor(arg(0)), nil))
	case "SafeParametersFor/continue", "SafeParametersFor/stop":
		var cbs []string
		cont := strings.HasSuffix(c.M, "/continue")
		res := a.SafeParametersFor(arg(0), func(p spec.Parameter, _ error) bool {
			cbs = append(cbs, p.Ref.String())
			return cont
		})
		return raw(paramsList(res, cbs))
	case "Gosched":
		runtime.Gosched()
		return json.RawMessage(`null`)
	}
	return raw(map[string]string{"unknownCall": c.M})
}

func paramsMap(m map[string]spec.Parameter, cbs []string) paramsAnswer {
	out := paramsAnswer{Params: map[string]json.RawMessage{}, Callbacks: cbs}
	for k, v := range m {
		out.Params[k] = raw(v)
	}
	return out
}

func paramsList(l []spec.Parameter, cbs []string) paramsAnswer {
	out := paramsAnswer{Callbacks: cbs}
	for _, v := range l {
		out.List = append(out.List, string(raw(v)))
	}
	sort.Strings(out.List)
	return out
}

// doConc: C16. Sequential answers first, then the generated scripts on N goroutines, Execs
// times; then the copy-safety probes; the document is serialised before New, after New and at
// the end.
func doConc(req *wproto.Request, resp *wproto.Response) {
	sw := loadRoot(req, resp)
	if sw == nil {
		return
	}
	b0 := mustMarshal(sw)
	resp.Before = b0
	var a *analysis.Spec
	if resp.Panic = guard("New", func() { a = analysis.New(sw) }); resp.Panic != "" {
		return
	}
	if b1 := mustMarshal(sw); b1 != b0 {
		resp.Mismatches = append(resp.Mismatches, "document changed by New")
	}
	// the sequential baseline comes from a SEPARATE load + analysis of the same bytes, so that the
	// Spec used concurrently has never been queried before: a lazily filled cache is still cold
	swSeq := loadRoot(req, resp)
	if swSeq == nil {
		return
	}
	aSeq := analysis.New(swSeq)
	seq := map[string]string{}
	for _, s := range req.Scripts {
		for _, c := range s {
			if _, ok := seq[c.Key()]; !ok {
				seq[c.Key()] = string(answer(aSeq, swSeq, c))
			}
		}
	}
	execs := req.Execs
	if execs <= 0 {
		execs = 1
	}
	var mu sync.Mutex
	for e := 0; e < execs; e++ {
		if e > 0 {
			a = analysis.New(sw) // every execution of the schedule starts from a Spec nobody has queried
		}
		var wg sync.WaitGroup
		start := make(chan struct{})
		for gi, s := range req.Scripts {
			wg.Add(1)
			go func(gi int, s []wproto.Call) {
				defer wg.Done()
				<-start
				for ci, c := range s {
					got := string(answer(a, sw, c))
					if c.M != "Gosched" && got != seq[c.Key()] {
						mu.Lock()
						if len(resp.Mismatches) < 5 {
							resp.Mismatches = append(resp.Mismatches, fmt.Sprintf("exec %d goroutine %d call %d %s: concurrent answer %.300s != sequential %.300s", e, gi, ci, c.Key(), got, seq[c.Key()]))
						}
						mu.Unlock()
					}
				}
			}(gi, s)
		}
		close(start)
		wg.Wait()
	}
	// copy safety of the maps handed out by the pattern / enum getters
	pat := map[string]func() map[string]string{
		"ParameterPatterns": a.ParameterPatterns, "HeaderPatterns": a.HeaderPatterns, "ItemsPatterns": a.ItemsPatterns,
		"SchemaPatterns": a.SchemaPatterns, "AllPatterns": a.AllPatterns,
	}
	for name, get := range pat {
		m := get()
		want := string(raw(m))
		for k := range m {
			m[k] = "overwritten"
		}
		m["#/verif/added"] = "x"
		if got := string(raw(get())); got != want {
			resp.Mismatches = append(resp.Mismatches, name+": overwriting/adding entries of the returned map changed a later answer")
		}
		m = get()
		for k := range m {
			delete(m, k)
		}
		if got := string(raw(get())); got != want {
			resp.Mismatches = append(resp.Mismatches, name+": deleting entries of the returned map changed a later answer")
		}
	}
	enum := map[string]func() map[string][]interface{}{
		"ParameterEnums": a.ParameterEnums, "HeaderEnums": a.HeaderEnums, "ItemsEnums": a.ItemsEnums,
		"SchemaEnums": a.SchemaEnums, "AllEnums": a.AllEnums,
	}
	for name, get := range enum {
		m := get()
		want := string(raw(m))
		for k := range m {
			m[k] = []interface{}{"overwritten"}
		}
		m["#/verif/added"] = []interface{}{"x"}
		if got := string(raw(get())); got != want {
			resp.Mismatches = append(resp.Mismatches, name+": overwriting/adding entries of the returned map changed a later answer")
		}
		m = get()
		for k := range m {
			delete(m, k)
		}
		if got := string(raw(get())); got != want {
			resp.Mismatches = append(resp.Mismatches, name+": deleting entries of the returned map changed a later answer")
		}
	}
	// answers after all that must still equal the first sequential answers
	for _, s := range req.Scripts {
		for _, c := range s {
			if c.M == "Gosched" {
				continue
			}
			if got := string(answer(a, sw, c)); got != seq[c.Key()] && len(resp.Mismatches) < 8 {
				resp.Mismatches = append(resp.Mismatches, fmt.Sprintf("%s: answer after the concurrent phase differs from the first sequential answer", c.Key()))
			}
		}
	}
	resp.After = mustMarshal(sw)
	if resp.After != b0 {
		resp.Mismatches = append(resp.Mismatches, "document changed by queries")
	}
}
