// Command worker runs the code under test (go-openapi/analysis) on behalf of the property process.
// One length-prefixed JSON request in, one response out. Document loading goes through an
// in-memory file system with k-th-load fault injection; a watchdog ends the process when one
// request burns more CPU time than its budget; the stack is capped so that unbounded recursion
// dies quickly instead of eating the machine.
package main

import (
	"bufio"
	"encoding/json"
	"fmt"
	"os"
	"runtime/debug"
	"strings"
	"sync/atomic"
	"syscall"
	"time"

	"verif/harness/wproto"

	"github.com/go-openapi/analysis"
	"github.com/go-openapi/spec"
)

var (
	vfs         map[string]string
	loads       int
	loadTrace   []string
	faultK      int
	faultSticky bool
	faultDoc    string
	faultHits   int

	startCPU  atomic.Int64 // cpu ns at request start, 0 = idle
	budgetCPU atomic.Int64
)

func cpuNow() int64 {
	var ru syscall.Rusage
	_ = syscall.Getrusage(syscall.RUSAGE_SELF, &ru)
	return ru.Utime.Nano() + ru.Stime.Nano()
}

func pathLoader(p string) (json.RawMessage, error) {
	p = strings.TrimPrefix(p, "file://")
	loads++
	loadTrace = append(loadTrace, p)
	if faultK > 0 {
		if loads == faultK {
			faultDoc = p
			faultHits++
			return nil, fmt.Errorf("vfs: injected failure on load #%d of %s", loads, p)
		}
		if faultSticky && faultDoc != "" && p == faultDoc {
			faultHits++
			return nil, fmt.Errorf("vfs: injected permanent failure of %s", p)
		}
	}
	b, ok := vfs[p]
	if !ok {
		return nil, fmt.Errorf("vfs: no such document %s", p)
	}
	return json.RawMessage(b), nil
}

func main() {
	maxStack := 256 << 20
	if v := os.Getenv("VERIF_MAXSTACK_MB"); v != "" {
		var n int
		if _, err := fmt.Sscanf(v, "%d", &n); err == nil && n > 0 {
			maxStack = n << 20
		}
	}
	debug.SetMaxStack(maxStack)
	spec.PathLoader = pathLoader
	go func() { // watchdog on CPU time, not wall clock
		for {
			time.Sleep(25 * time.Millisecond)
			s := startCPU.Load()
			if s != 0 && cpuNow()-s > budgetCPU.Load() {
				fmt.Fprintln(os.Stderr, "VERIF-HANG cpu budget exceeded")
				os.Exit(3)
			}
		}
	}()
	in := bufio.NewReaderSize(os.Stdin, 1<<16)
	out := bufio.NewWriterSize(os.Stdout, 1<<16)
	for {
		var req wproto.Request
		if err := wproto.ReadMsg(in, &req); err != nil {
			return
		}
		resp := handle(&req)
		if err := wproto.WriteMsg(out, resp); err != nil {
			return
		}
		_ = out.Flush()
	}
}

func handle(req *wproto.Request) (resp *wproto.Response) {
	resp = &wproto.Response{}
	vfs, loads, loadTrace = req.Docs, 0, nil
	faultK, faultSticky, faultDoc, faultHits = req.FaultK, req.FaultSticky, "", 0
	b := int64(req.CPUMs)
	if b <= 0 {
		b = wproto.DefaultCPUMs
	}
	budgetCPU.Store(b * 1e6)
	t0 := cpuNow()
	startCPU.Store(t0)
	defer func() {
		startCPU.Store(0)
		resp.CPUMs = int((cpuNow() - t0) / 1e6)
	}()
	defer func() {
		if r := recover(); r != nil {
			resp.Panic = "worker: " + fmt.Sprint(r)
		}
		resp.Loads = loads
		resp.LoadTrace = loadTrace
		resp.FaultHits = faultHits
	}()
	switch req.Op {
	case "flatten":
		doFlatten(req, resp)
	case "analyze":
		doAnalyze(req, resp)
	case "schema":
		doSchema(req, resp)
	case "mixin":
		doMixin(req, resp)
	case "fixer":
		doFixer(req, resp)
	case "conc":
		doConc(req, resp)
	case "ping":
	default:
		resp.Err = "worker: unknown op " + req.Op
	}
	return resp
}

// guard runs f and reports a recovered panic, tagged with the phase.
func guard(phase string, f func()) (panicked string) {
	defer func() {
		if r := recover(); r != nil {
			panicked = phase + ": " + fmt.Sprint(r)
		}
	}()
	f()
	return ""
}

func loadRoot(req *wproto.Request, resp *wproto.Response) *spec.Swagger {
	txt, ok := req.Docs[req.RootPath]
	if !ok {
		resp.LoadErr = "no root document in request"
		return nil
	}
	sw := new(spec.Swagger)
	if err := json.Unmarshal([]byte(txt), sw); err != nil {
		resp.LoadErr = err.Error()
		return nil
	}
	return sw
}

func mustMarshal(v interface{}) string {
	b, err := json.Marshal(v)
	if err != nil {
		panic("marshal: " + err.Error())
	}
	return string(b)
}

func doFlatten(req *wproto.Request, resp *wproto.Response) {
	sw := loadRoot(req, resp)
	if sw == nil {
		return
	}
	resp.Before = mustMarshal(sw)
	var an *analysis.Spec
	if resp.Panic = guard("New", func() { an = analysis.New(sw) }); resp.Panic != "" {
		return
	}
	if req.Probe {
		faultK = 0
		for _, sr := range an.AllDefinitions() {
			sr := sr
			p := guard("Schema("+sr.Ref.String()+")", func() {
				if _, err := analysis.Schema(analysis.SchemaOpts{Schema: sr.Schema, Root: sw, BasePath: req.RootPath}); err != nil {
					resp.ProbeErrs++
				}
			})
			if p != "" {
				resp.Panic = p
				return
			}
		}
	}
	// the load counter, the trace and the fault plan concern the Flatten call only
	loads, loadTrace = 0, nil
	faultK, faultSticky, faultDoc, faultHits = req.FaultK, req.FaultSticky, "", 0
	var err error
	o := req.Opts
	resp.Panic = guard("Flatten", func() {
		err = analysis.Flatten(analysis.FlattenOpts{
			Spec: an, BasePath: req.RootPath,
			Minimal: o.Minimal, Expand: o.Expand, RemoveUnused: o.RemoveUnused, KeepNames: o.KeepNames, ContinueOnError: o.ContinueOnError,
		})
	})
	if resp.Panic != "" {
		return
	}
	if err != nil {
		resp.Err = err.Error()
		return
	}
	resp.After = mustMarshal(sw)
	if req.Dump {
		calls := enumerateCalls(sw)
		resp.Passed = answers(an, sw, calls)
		resp.Fresh = answers(analysis.New(sw), sw, calls)
	}
}

func doAnalyze(req *wproto.Request, resp *wproto.Response) {
	sw := loadRoot(req, resp)
	if sw == nil {
		return
	}
	resp.Before = mustMarshal(sw)
	var an *analysis.Spec
	if resp.Panic = guard("New", func() { an = analysis.New(sw) }); resp.Panic != "" {
		return
	}
	calls := append(enumerateCalls(sw), req.Calls...)
	resp.Fresh = answers(an, sw, calls)
	resp.After = mustMarshal(sw)
}

var flagNames = []string{"IsKnownType", "IsSimpleSchema", "IsArray", "IsSimpleArray", "IsMap", "IsSimpleMap", "IsExtendedObject", "IsTuple", "IsTupleWithExtra", "IsBaseType", "IsEnum"}

func flagsOf(a *analysis.AnalyzedSchema) map[string]bool {
	return map[string]bool{
		"IsKnownType": a.IsKnownType, "IsSimpleSchema": a.IsSimpleSchema, "IsArray": a.IsArray, "IsSimpleArray": a.IsSimpleArray,
		"IsMap": a.IsMap, "IsSimpleMap": a.IsSimpleMap, "IsExtendedObject": a.IsExtendedObject, "IsTuple": a.IsTuple,
		"IsTupleWithExtra": a.IsTupleWithExtra, "IsBaseType": a.IsBaseType, "IsEnum": a.IsEnum,
	}
}

func doSchema(req *wproto.Request, resp *wproto.Response) {
	sw := loadRoot(req, resp)
	if sw == nil {
		return
	}
	for _, txt := range req.Schemas {
		var r wproto.SchemaResult
		sch := new(spec.Schema)
		if err := json.Unmarshal([]byte(txt), sch); err != nil {
			r.Err = "LOAD: " + err.Error()
			resp.Schemas = append(resp.Schemas, r)
			continue
		}
		r.Panic = guard("Schema", func() {
			a, err := analysis.Schema(analysis.SchemaOpts{Schema: sch, Root: sw, BasePath: req.RootPath})
			if err != nil {
				r.Err = err.Error()
				return
			}
			r.Flags = flagsOf(a)
		})
		resp.Schemas = append(resp.Schemas, r)
	}
}

func doMixin(req *wproto.Request, resp *wproto.Response) {
	primary := new(spec.Swagger)
	if err := json.Unmarshal([]byte(req.Primary), primary); err != nil {
		resp.LoadErr = err.Error()
		return
	}
	resp.Before = mustMarshal(primary)
	var mixins []*spec.Swagger
	for _, m := range req.Mixins {
		sw := new(spec.Swagger)
		if err := json.Unmarshal([]byte(m), sw); err != nil {
			resp.LoadErr = err.Error()
			return
		}
		mixins = append(mixins, sw)
	}
	resp.Panic = guard("Mixin", func() {
		w := analysis.Mixin(primary, mixins...)
		if w == nil {
			w = []string{}
		}
		resp.Warnings = w
	})
	if resp.Panic == "" {
		resp.After = mustMarshal(primary)
	}
}

func doFixer(req *wproto.Request, resp *wproto.Response) {
	sw := loadRoot(req, resp)
	if sw == nil {
		return
	}
	resp.Before = mustMarshal(sw)
	if resp.Panic = guard("FixEmptyResponseDescriptions", func() { analysis.FixEmptyResponseDescriptions(sw) }); resp.Panic != "" {
		return
	}
	resp.After = mustMarshal(sw)
	if resp.Panic = guard("FixEmptyResponseDescriptions(2nd)", func() { analysis.FixEmptyResponseDescriptions(sw) }); resp.Panic != "" {
		return
	}
	resp.After2 = mustMarshal(sw)
}
