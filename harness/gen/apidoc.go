package gen

import (
	"fmt"

	. "verif/harness/jsonx"
)

// APICfg parametrises the generator of single API documents (C11-C16, C19).
type APICfg struct {
	MaxDepth int
	MaxLayer int
	Refs     bool // plant $refs (need not resolve: the analyzer does not resolve) at every ref-capable place
	PatEnum  bool // plant patterns / enums on every kind of owner
	OpsMeta  bool // consumes / produces / security in the three states absent / empty / non-empty, securityDefinitions
	Params   bool // C15 focus: overlapping (in,name), shared refs, dangling refs, refs to non-parameters
	RespDesc bool // C19 focus: responses with / without description, $ref responses, operations without responses
}

// APICase is a materialised single-document case.
type APICase struct {
	Doc       O        `json:"doc"`
	GenLabels []string `json:"genLabels,omitempty"`
}

type agen struct {
	*D
	cfg   APICfg
	layer int
	pool  []string
	opSeq int
}

var apiMethods = []string{"get", "put", "post", "delete", "options", "head", "patch"}

func (g *agen) name() string { return g.Pick(g.pool) }

func (g *agen) ref() string {
	g.Label("ref")
	return g.Pick([]string{"#/definitions/pet", "#/definitions/a%20b", "other.json#/definitions/x", "#/parameters/p", "#/responses/r", "#/nowhere/at/all", "#/definitions/a~1b", "sub/dir.json"})
}

func (g *agen) pe(o O) O {
	if !g.cfg.PatEnum {
		return o
	}
	if g.Pct(30) {
		o["pattern"] = "^" + g.Pick([]string{"a", "b", "c"}) + "$"
	}
	if g.Pct(30) {
		o["enum"] = A{g.Pick([]string{"a", "b"}), "z"}
	}
	return o
}

func (g *agen) schema(d int) O {
	if d >= g.cfg.MaxDepth || g.Pct(30) {
		if g.cfg.Refs && g.Pct(40) {
			return O{"$ref": g.ref()}
		}
		return g.pe(O{"type": "string"})
	}
	s := g.pe(O{})
	// 1..3 schema-bearing keywords per schema, so that keyword combinations occur (single items
	// together with additionalItems, properties together with additionalProperties, ...)
	n := 1
	if g.Pct(35) {
		n = g.Int(2, 3)
	}
	for i := 0; i < n; i++ {
		g.feature(s, d)
	}
	if g.Pct(10) {
		// a scalar "type" next to schema-bearing keywords: odd, loadable, and the keywords still hold schemas
		s["type"] = g.Pick([]string{"string", "integer", "boolean"})
		g.Label("scalar-typed-holder")
	}
	return s
}

func (g *agen) feature(s O, d int) {
	switch g.Int(0, 11) {
	case 0:
		if _, ok := s["type"]; !ok {
			s["type"] = "object"
		}
	case 1:
		s["properties"] = O{g.name(): g.schema(d + 1), g.name(): g.schema(d + 1)}
		g.Label("kw:properties")
	case 2:
		if _, ok := s["items"]; !ok {
			s["type"] = "array"
			s["items"] = g.schema(d + 1)
			g.Label("kw:items")
		}
	case 3:
		s["additionalProperties"] = g.schema(d + 1)
		g.Label("kw:additionalProperties")
	case 4:
		s["allOf"] = A{g.schema(d + 1), g.schema(d + 1)}
		g.Label("kw:allOf")
	case 5:
		if _, ok := s["items"]; !ok {
			s["type"] = "array"
			s["items"] = A{g.schema(d + 1), g.schema(d + 1)}
			g.Label("kw:items[]")
		}
		if g.Pct(50) {
			s["additionalItems"] = g.schema(d + 1)
			g.Label("kw:additionalItems")
		}
	case 6:
		pp := O{"^x": g.schema(d + 1)}
		if g.Pct(50) {
			pp["^y-"] = g.schema(d + 1)
		}
		s["patternProperties"] = pp
		g.Label("kw:patternProperties")
	case 7:
		s["definitions"] = O{g.name(): g.schema(d + 1)}
		g.Label("kw:definitions")
	case 8:
		s["anyOf"] = A{g.schema(d + 1)}
		g.Label("kw:anyOf")
	case 9:
		s["oneOf"] = A{g.schema(d + 1)}
		g.Label("kw:oneOf")
	case 10:
		s["not"] = g.schema(d + 1)
		g.Label("kw:not")
	case 11:
		// additionalItems on its own: loadable whether or not "items" is there, and still a schema location
		s["additionalItems"] = g.schema(d + 1)
		if _, ok := s["items"]; !ok {
			g.Label("kw:additionalItems-without-items")
		} else {
			g.Label("kw:additionalItems")
		}
	}
}

func (g *agen) items(d int) O {
	if g.cfg.Refs && g.Pct(40) {
		g.Label("ref:items")
		return O{"$ref": g.ref()}
	}
	it := g.pe(O{"type": "string"})
	if d < 2 && g.Pct(40) {
		it["type"] = "array"
		it["items"] = g.items(d + 1)
		g.Label("nested-items")
	}
	return it
}

var (
	paramNames = []string{"id", "limit", "filter", "X-Rate"}
	paramIns   = []string{"query", "header", "path", "formData"}
)

// param draws one parameter. where: shared | path | operation.
func (g *agen) param(i int, where string, shared []string) O {
	if where != "shared" {
		if g.cfg.Params && len(shared) > 0 && g.Pct(30) {
			g.Label("param:shared-ref")
			return O{"$ref": Frag("parameters", g.Pick(shared))}
		}
		if g.cfg.Params && g.Pct(12) {
			g.Label("param:bad-ref")
			return O{"$ref": g.Pick([]string{"#/parameters/nope", "#/definitions/d", "#/parameters"})}
		}
		if g.cfg.Refs && g.Pct(40) {
			g.Label("ref:parameter")
			return O{"$ref": g.ref()}
		}
	}
	if g.Pct(35) {
		return O{"name": "body", "in": "body", "schema": g.schema(0)}
	}
	var p O
	if g.cfg.Params {
		// small pools so that (in,name) overlaps between path and operation level are frequent
		p = O{"name": g.Pick(paramNames[:3]), "in": g.Pick(paramIns[:2]), "type": "string", "description": fmt.Sprintf("%s%d", where, g.Int(0, 3))}
	} else {
		p = O{"name": fmt.Sprintf("%s%d", g.Pick(paramNames), i), "in": g.Pick(paramIns), "type": "string"}
	}
	g.pe(p)
	if g.Pct(35) {
		p["type"] = "array"
		p["items"] = g.items(0)
	}
	if g.Pct(10) {
		// a vendor extension that code generators read; it plays no part in which parameter overrides which
		p["x-go-name"] = g.Pick([]string{"MaxItems", "ID"})
		g.Label("param:x-go-name")
	}
	return p
}

func (g *agen) header() O {
	h := g.pe(O{"type": "string"})
	if g.Pct(40) {
		h["type"] = "array"
		h["items"] = g.items(0)
	}
	return h
}

// response draws one response. where: shared | default | code.
func (g *agen) response(where string, shared []string) O {
	if where != "shared" {
		if g.cfg.RespDesc && len(shared) > 0 && g.Pct(25) {
			g.Label("response:shared-ref")
			return O{"$ref": Frag("responses", g.Pick(shared))}
		}
		if (g.cfg.Refs || g.cfg.RespDesc) && g.Pct(35) {
			g.Label("ref:response")
			r := O{"$ref": g.ref()}
			if g.cfg.Refs && g.Pct(20) {
				// a $ref with siblings: loadable, and the siblings are still part of the document
				g.Label("ref:response-with-siblings")
				// (only the schema: the spec model does not serialise the headers of a $ref response)
				r["schema"] = g.schema(0)
			}
			return r
		}
	}
	r := O{}
	if !g.cfg.RespDesc || g.Pct(50) {
		r["description"] = "r" + fmt.Sprint(g.Int(0, 2))
		if g.cfg.RespDesc && g.Pct(15) {
			r["description"] = g.Pick([]string{" ", "\t", "\n ", "(empty)"}) // not empty: must be left alone
			g.Label("response:blank-description")
		}
	} else {
		g.Label("response:no-description")
	}
	if g.Pct(55) {
		r["schema"] = g.schema(0)
	}
	if g.Pct(45) {
		hs := O{}
		for _, h := range []string{"X-A", "X-B", "ETag"} {
			if g.Pct(45) {
				hs[h] = g.header()
			}
		}
		if g.Pct(12) {
			// '~' is a legal character of an HTTP header name (RFC 7230 token), and needs escaping in a JSON pointer
			hs["X-Rate~Limit"] = g.header()
			g.Label("header-name-with-tilde")
		}
		if len(hs) > 0 {
			r["headers"] = hs
			g.Label("headers:" + where)
		}
	}
	return r
}

var media = []string{"application/json", "text/plain", "application/xml"}

// triState sets key to absent / empty / a non-empty subset of pool.
func (g *agen) triState(o O, key string, pool []string) {
	switch g.Int(0, 3) {
	case 0:
	case 1:
		o[key] = A{}
		g.Label(key + ":empty")
	default:
		a := A{}
		for _, p := range pool {
			if g.Pct(50) {
				a = append(a, p)
				if g.Pct(15) {
					a = append(a, p) // a duplicate, possibly followed by a value not seen yet
					g.Label(key + ":duplicate")
				}
			}
		}
		o[key] = a
	}
}

func (g *agen) security(o O) {
	switch g.Int(0, 3) {
	case 0:
	case 1:
		o["security"] = A{}
		g.Label("security:empty")
	default:
		a := A{}
		for _, p := range []string{"sa", "sb", "sc", "undefined"} {
			if g.Pct(40) {
				if g.Pct(15) {
					a = append(a, O{p: nil}) // scopes given as JSON null
					g.Label("security:null-scopes")
				} else {
					a = append(a, O{p: A{"scope1"}})
				}
			}
		}
		if g.Pct(20) {
			a = append(a, O{})
		}
		if g.Pct(20) {
			a = append(a, O{"sa": A{}, "sb": A{"x"}})
		}
		o["security"] = a
	}
}

// GenAPIDoc draws one Swagger 2.0 document.
func GenAPIDoc(d *D, cfg APICfg) *APICase {
	g := &agen{D: d, cfg: cfg}
	g.layer = g.Int(0, cfg.MaxLayer)
	g.pool = NamePool(g.layer, nil)
	g.Label(fmt.Sprintf("layer:%d", g.layer))
	doc := O{"swagger": "2.0"}
	if cfg.OpsMeta {
		g.triState(doc, "consumes", media)
		g.triState(doc, "produces", media)
		g.security(doc)
		sd := O{}
		for _, s := range []string{"sa", "sb", "sc"} {
			if g.Pct(60) {
				sd[s] = O{"type": "basic", "description": s}
			}
		}
		if len(sd) > 0 {
			doc["securityDefinitions"] = sd
		}
	}
	defs, params, resps, paths := O{}, O{}, O{}, O{}
	for i := g.Int(0, 3); i > 0; i-- {
		defs[g.name()] = g.schema(0)
	}
	if cfg.Params {
		defs["d"] = O{"type": "string"}
	}
	for i := g.Int(0, 2); i > 0; i-- {
		nm := fmt.Sprintf("s%d", i)
		if g.Pct(30) {
			nm = g.name() // names that need escaping in a JSON pointer / URL fragment
		}
		params[nm] = g.param(i, "shared", nil)
	}
	for i := g.Int(0, 2); i > 0; i-- {
		nm := fmt.Sprintf("r%d", i)
		if g.Pct(30) {
			nm = g.name()
		}
		resps[nm] = g.response("shared", nil)
	}
	sharedP, sharedR := SortedKeys(params), SortedKeys(resps)
	pathPool := []string{"/a", "/a/{id}", "/"}
	if g.layer >= 1 {
		pathPool = append(pathPool, "/x y/{z}")
	}
	if g.layer >= 2 {
		pathPool = append(pathPool, "/t~d", "/q?x/{id}")
	}
	npaths := g.Int(0, 4)
	if cfg.Refs && npaths == 0 && g.Pct(80) {
		npaths = 2
	}
	for i := npaths; i > 0; i-- {
		p := g.Pick(pathPool)
		pi := O{}
		if cfg.Refs && g.Pct(15) {
			g.Label("ref:pathitem")
			if g.Pct(70) {
				paths[p] = O{"$ref": g.ref()}
				continue
			}
			pi["$ref"] = g.ref() // a path item $ref next to its own parameters / operations
			g.Label("ref:pathitem-with-siblings")
		}
		if g.Pct(40) {
			n := g.Int(1, 2)
			if g.Pct(15) {
				n = []int{3, 5, 6}[g.Int(0, 2)] // longer lists: a decoded slice then has spare capacity
				g.Label("path-level-params:many")
			}
			var ps A
			for j := 0; j < n; j++ {
				ps = append(ps, g.param(j, "path", sharedP))
			}
			pi["parameters"] = ps
			g.Label("path-level-params")
		}
		for _, m := range apiMethods {
			if !g.Pct(35) {
				continue
			}
			g.Label("method:" + m)
			op := O{}
			if g.Pct(60) {
				g.opSeq++
				id := fmt.Sprintf("op%d", g.opSeq)
				if g.opSeq%2 == 0 && g.Pct(30) {
					// an id that differs from the previous one by letter case only
					id = fmt.Sprintf("OP%d", g.opSeq-1)
					g.Label("op:id-case-variant")
				}
				op["operationId"] = id
			} else {
				g.Label("op:no-id")
			}
			if cfg.OpsMeta {
				g.triState(op, "consumes", media)
				g.triState(op, "produces", media)
				g.security(op)
			}
			if g.Pct(65) {
				n := g.Int(1, 3)
				var ps A
				for j := 0; j < n; j++ {
					ps = append(ps, g.param(j, "operation", sharedP))
				}
				op["parameters"] = ps
			}
			if g.Pct(88) {
				rs := O{}
				for _, c := range []string{"default", "200", "404"} {
					if g.Pct(50) {
						where := "code"
						if c == "default" {
							where = "default"
						}
						rs[c] = g.response(where, sharedR)
					}
				}
				op["responses"] = rs
			} else {
				g.Label("op:no-responses")
			}
			pi[m] = op
		}
		paths[p] = pi
	}
	if len(defs) > 0 {
		doc["definitions"] = defs
	}
	if len(params) > 0 {
		doc["parameters"] = params
	}
	if len(resps) > 0 {
		doc["responses"] = resps
	}
	if g.Pct(90) {
		doc["paths"] = paths
	} else {
		g.Label("no-paths")
	}
	return &APICase{Doc: doc, GenLabels: g.LabelList()}
}
