package gen

import (
	"fmt"
	"path"
	"regexp"
	"strconv"
	"strings"

	. "verif/harness/jsonx"
	"verif/harness/wproto"

	"github.com/go-openapi/swag"
)

// Bundle is a root Swagger 2.0 document plus auxiliary documents in nested directories.
type Bundle struct {
	Dir  string       `json:"dir"`  // absolute directory of the root document
	Root O            `json:"root"` // root.json
	Aux  map[string]O `json:"aux"`  // relative slash path -> document
}

func (b *Bundle) RootPath() string { return path.Join(b.Dir, "root.json") }

// Docs returns absolute path -> document.
func (b *Bundle) Docs() map[string]O {
	m := map[string]O{b.RootPath(): b.Root}
	for p, d := range b.Aux {
		m[path.Join(b.Dir, p)] = d
	}
	return m
}

// FlattenCase is a materialised case of the Flatten properties.
type FlattenCase struct {
	Bundle
	Opts      wproto.FlattenOpts `json:"opts"`
	PermSeeds []uint64           `json:"permSeeds,omitempty"` // C07: key-order permutations of the documents
	GenLabels []string           `json:"genLabels,omitempty"`
}

var AuxPaths = []string{"aux/a.json", "aux/deep/b.json", "other/c.json", "d.json"}

// OptSets in shrink order: Minimal first.
var (
	OptMinimal   = wproto.FlattenOpts{Minimal: true}
	OptMinimalRU = wproto.FlattenOpts{Minimal: true, RemoveUnused: true}
	OptFull      = wproto.FlattenOpts{}
	OptFullRU    = wproto.FlattenOpts{RemoveUnused: true}
	OptExpand    = wproto.FlattenOpts{Expand: true}
	OptExpandRU  = wproto.FlattenOpts{Expand: true, RemoveUnused: true}
	AllOptSets   = []wproto.FlattenOpts{OptMinimal, OptMinimalRU, OptFull, OptFullRU, OptExpand, OptExpandRU}
)

// BundleCfg parametrises the W generator.
type BundleCfg struct {
	MaxDepth int
	MaxLayer int             // name alphabet layers 0..MaxLayer are drawn per case
	Exclude  map[string]bool // name classes excluded by construction (open known findings)
	Exotic   bool            // anyOf / oneOf / not / patternProperties / nested definitions holders
	OptSets  []wproto.FlattenOpts
	AnonPtrs bool // anonymous pointers (only planted for Minimal / full option sets)
	// switches that exclude the input class of an open known finding by construction
	NoOplessPathParams    bool // path-level body parameters only on paths with >= 1 operation
	NoExpandCollidingCyc  bool
	NoKeywordPropsInFull  bool
	NoCollisions          bool
	NoCollisionsInFull    bool // full mode: colliding auxiliary definitions are renamed apart
	NoKeepNames           bool
	KeepNamesPlainOnly    bool // KeepNames only together with the plain name layer
	NoPunctOnlyLocalNames bool // punctuation-only names only as names of auxiliary definitions
	NoOAIGenNamedAliases  bool // a root definition whose name contains "OAIGen" is never a bare alias of a remote definition
	NoSharedSchemaPtrs    bool
	NoAnonPtrsIntoAliases bool
}

type target struct {
	doc  string // "" root, else aux path
	name string
}

type bgen struct {
	*D
	cfg      BundleCfg
	layer    int
	pool     []string
	rootDefs []string
	aux      []string
	auxDefs  map[string][]string
	refFree  map[target]bool
	b        *Bundle
	opts     wproto.FlattenOpts
}

// confusable maps a name to a sibling that naive string handling may confuse it with (same text up to
// a '#', a letter case, a prefix, all-punctuation names that mangle to the same empty string).
var confusable = map[string][]string{
	"h#x": {"h#y"}, "h#y": {"h#x"}, "pet": {"PET", "Pet", "petOwner"}, "Pet": {"pet", "PET"}, "PET": {"pet"},
	"a/b": {"a/b c", "a"}, "?": {"#", "[]"}, "[]": {"{}", "?"}, "{}": {"[]"}, "#": {"?"}, "~": {"?", "~1"},
	"q?x": {"q?y", "q"}, "tag": {"Tag"}, "Tag": {"tag"},
}

var genLike = func() map[string]bool {
	m := map[string]bool{}
	for _, n := range genLikeNames {
		if !strings.Contains(n, "OAIGen") {
			m[n] = true
		}
	}
	return m
}()

func (g *bgen) names(lo, hi int) []string {
	n := g.Int(lo, hi)
	seen := map[string]bool{}
	var out []string
	for i := 0; i < n; i++ {
		nm := g.Pick(g.pool)
		if seen[nm] {
			continue
		}
		seen[nm] = true
		out = append(out, nm)
	}
	// a name shaped like the ones Flatten generates often comes with its twin up to letter case: a generated
	// name then conflicts with several existing definitions at once
	for _, nm := range out {
		if !genLike[nm] || !g.Pct(40) {
			continue
		}
		twin := strings.ToUpper(nm[:1]) + nm[1:]
		if twin == nm {
			twin = strings.ToLower(nm[:1]) + nm[1:]
		}
		if !seen[twin] {
			seen[twin] = true
			out = append(out, twin)
			g.Label("gen-like-case-twins")
		}
	}
	// now and then add a sibling of a chosen name that is easily confused with it
	if len(out) > 0 && g.layer > 0 && g.Pct(20) {
		base := out[g.Int(0, len(out)-1)]
		if sibs := confusable[base]; len(sibs) > 0 {
			sib := g.Pick(sibs)
			ok := !seen[sib]
			for _, c := range NameClasses(sib) {
				ok = ok && !g.cfg.Exclude[c]
			}
			if ok {
				out = append(out, sib)
				g.Label("confusable-sibling")
			}
		}
	}
	return out
}

func (g *bgen) sharedNames() []string {
	saved := g.pool
	g.pool = NamePool(0, g.cfg.Exclude)
	defer func() { g.pool = saved }()
	return g.names(0, 2)
}

// RefTo renders a $ref from document `from` (relative path, "" = root) to a definition.
func RefTo(from string, tgDoc, tgName string, extra ...string) string {
	frag := Frag(append([]string{"definitions", tgName}, extra...)...)
	if from == tgDoc {
		return frag
	}
	return RelDoc(from, tgDoc) + frag
}

// RelDoc is the relative path of document `to` as seen from document `from` ("" = root.json).
func RelDoc(from, to string) string {
	if from == "" {
		from = "root.json"
	}
	if to == "" {
		to = "root.json"
	}
	f := strings.Split(path.Dir("/"+from), "/")
	t := strings.Split("/"+to, "/")
	f, t = f[1:], t[1:]
	if len(f) == 1 && f[0] == "" {
		f = nil
	}
	i := 0
	for i < len(f) && i < len(t)-1 && f[i] == t[i] {
		i++
	}
	var parts []string
	for j := i; j < len(f); j++ {
		parts = append(parts, "..")
	}
	parts = append(parts, t[i:]...)
	return strings.Join(parts, "/")
}

func (g *bgen) targetsFor(doc string) []target {
	var ts []target
	if doc == "" {
		for _, n := range g.rootDefs {
			ts = append(ts, target{"", n})
		}
	}
	for _, a := range g.aux {
		for _, n := range g.auxDefs[a] {
			ts = append(ts, target{a, n})
		}
	}
	return ts
}

func (g *bgen) refTo(doc string, tg target) O {
	switch {
	case tg.doc == doc:
		g.Label("ref:local")
	case strings.Contains(RelDoc(doc, tg.doc), "/"):
		g.Label("ref:remote-subdir")
	default:
		g.Label("ref:remote")
	}
	return O{"$ref": RefTo(doc, tg.doc, tg.name)}
}

func (g *bgen) prim() O {
	s := O{}
	switch g.Int(0, 5) {
	case 0:
		s["type"] = "string"
		if g.Pct(30) {
			s["format"] = g.Pick([]string{"date", "date-time", "uuid", "byte"})
		}
		if g.Pct(20) {
			s["enum"] = A{"a", "b"}
		}
		if g.Pct(15) {
			s["pattern"] = "^a+$"
		}
	case 1:
		s["type"] = "integer"
		if g.Pct(40) {
			s["format"] = g.Pick([]string{"int32", "int64"})
		}
	case 2:
		s["type"] = "number"
	case 3:
		s["type"] = "boolean"
	case 4:
		s["type"] = "object" // empty object
	case 5:
		// fully empty schema
	}
	if g.Pct(10) {
		s["description"] = "d" + fmt.Sprint(g.Int(0, 3))
	}
	return s
}

// defSchema generates a definition body; a bare-$ref body may only alias a definition that comes
// earlier in the global order (no bare-ref cycles: those resolve to no schema at all).
func (g *bgen) defSchema(doc string, self target, allowRef bool) O {
	s := g.schema(doc, 0, allowRef)
	if _, isRef := s["$ref"]; !isRef {
		return s
	}
	// global order: auxiliary definitions (document order, then name order) come before all root
	// definitions: auxiliary documents never refer back to the root, so a root definition may alias
	// any auxiliary definition (a very common shape: "foo": {"$ref": "aux.json#/definitions/foo"})
	var earlier []target
	if doc == "" {
		for _, tg := range g.targetsFor(doc) {
			if tg.doc != "" {
				earlier = append(earlier, tg)
			}
		}
	}
	for _, tg := range g.targetsFor(doc) {
		if tg == self {
			break
		}
		if doc == "" && tg.doc != "" {
			continue
		}
		earlier = append(earlier, tg)
	}
	if len(earlier) == 0 {
		return g.prim()
	}
	if g.cfg.NoOAIGenNamedAliases && doc == "" && strings.Contains(self.name, "OAIGen") {
		var local []target
		for _, tg := range earlier {
			if tg.doc == "" {
				local = append(local, tg)
			}
		}
		if len(local) == 0 {
			return g.prim()
		}
		earlier = local
	}
	g.Label("alias-definition")
	if doc == "" && g.Pct(50) {
		// alias to the auxiliary definition of the same (folded) name, if any: the import then collides with the alias itself
		for _, tg := range earlier {
			if tg.doc != "" && CollisionBase(tg.name, true) == CollisionBase(self.name, false) {
				g.Label("alias-to-colliding-import")
				return g.refTo(doc, tg)
			}
		}
	}
	return g.refTo(doc, earlier[g.Int(0, len(earlier)-1)])
}

func (g *bgen) dropPunct(ns []string) []string {
	if !g.cfg.NoPunctOnlyLocalNames {
		return ns
	}
	var out []string
	for _, n := range ns {
		if CollisionBase(n, true) != "" {
			out = append(out, n)
		}
	}
	return out
}

func (g *bgen) propNames() []string {
	ns := g.dropPunct(g.names(1, 3))
	if g.cfg.NoKeywordPropsInFull && !g.opts.Minimal && !g.opts.Expand {
		var out []string
		for _, n := range ns {
			kw := false
			for _, k := range keywordNames {
				if n == k {
					kw = true
				}
			}
			if !kw {
				out = append(out, n)
			}
		}
		ns = out
	}
	if len(ns) == 0 {
		ns = []string{"p"}
	}
	return ns
}

func (g *bgen) schema(doc string, depth int, allowRef bool) O {
	ts := g.targetsFor(doc)
	k := 99 - g.Int(0, 99) // shrinks towards 99 = primitive
	if depth >= g.cfg.MaxDepth {
		if allowRef && len(ts) > 0 && k < 50 {
			return g.refTo(doc, ts[g.Int(0, len(ts)-1)])
		}
		return g.prim()
	}
	switch {
	case k >= 90:
		return g.prim()
	case k < 20 && allowRef && len(ts) > 0:
		return g.refTo(doc, ts[g.Int(0, len(ts)-1)])
	case k < 32:
		return g.prim()
	case k < 50: // object
		s := O{"type": "object"}
		props := O{}
		for _, n := range g.propNames() {
			props[n] = g.schema(doc, depth+1, allowRef)
		}
		s["properties"] = props
		if g.Pct(25) {
			s["required"] = A{SortedKeys(props)[0]}
		}
		if g.Pct(15) {
			if g.Bool() {
				s["additionalProperties"] = g.schema(doc, depth+1, allowRef)
			} else {
				s["additionalProperties"] = true
			}
		}
		if g.Pct(8) {
			s["discriminator"] = SortedKeys(props)[0]
		}
		if g.Pct(12) {
			delete(s, "type") // "type" is optional
			g.Label("object:typeless")
		}
		return s
	case k < 60: // map
		s := O{"type": "object"}
		if g.Pct(85) {
			s["additionalProperties"] = g.schema(doc, depth+1, allowRef)
		} else {
			s["additionalProperties"] = true
		}
		if g.Pct(12) {
			delete(s, "type")
			g.Label("map:typeless")
		}
		return s
	case k < 71: // array
		s := O{"type": "array", "items": g.schema(doc, depth+1, allowRef)}
		if g.Pct(8) {
			s["additionalItems"] = g.schema(doc, depth+1, allowRef) // unusual but loadable: additionalItems next to a single items schema
			if g.Pct(30) {
				delete(s, "items") // ... or on its own: still a schema location
				g.Label("additionalItems-without-items")
			}
		}
		return s
	case k < 79: // tuple
		n := g.Int(1, 3)
		var its A
		for i := 0; i < n; i++ {
			its = append(its, g.schema(doc, depth+1, allowRef))
		}
		s := O{"type": "array", "items": its}
		if g.Pct(20) {
			delete(s, "type") // "type" is optional: positional items make a tuple all the same
			g.Label("tuple:typeless")
		}
		if g.Pct(40) {
			if g.Pct(70) {
				s["additionalItems"] = g.schema(doc, depth+1, allowRef)
			} else {
				s["additionalItems"] = g.Bool()
			}
		}
		return s
	case k < 84 || !g.cfg.Exotic: // allOf (the exotic holders below take k in 84..89)
		n := g.Int(1, 3)
		var its A
		for i := 0; i < n; i++ {
			its = append(its, g.schema(doc, depth+1, allowRef))
		}
		s := O{"allOf": its}
		if g.Pct(30) {
			s["type"] = "object"
		}
		if g.Pct(15) {
			// a composition that also allows additional properties is still a composition
			if g.Bool() {
				s["additionalProperties"] = true
			} else {
				s["additionalProperties"] = g.schema(doc, depth+1, allowRef)
			}
		}
		return s
	default:
		g.Label("exotic-holder")
		s := O{}
		switch g.Int(0, 5) {
		case 5:
			// two pattern properties with different complex schemas
			s["type"] = "object"
			s["patternProperties"] = O{
				"^n-": O{"type": "object", "properties": O{"n": g.schema(doc, depth+1, allowRef)}},
				"^s-": O{"type": "object", "properties": O{"s": g.prim(), "t": O{"type": "string"}}},
			}
		case 0:
			s["anyOf"] = A{g.schema(doc, depth+1, allowRef), g.schema(doc, depth+1, allowRef)}
		case 1:
			s["oneOf"] = A{g.schema(doc, depth+1, allowRef)}
		case 2:
			s["not"] = g.schema(doc, depth+1, allowRef)
		case 3:
			s["type"] = "object"
			pp := O{"^x-": g.schema(doc, depth+1, allowRef)}
			if g.Bool() {
				pp["^y-"] = g.schema(doc, depth+1, allowRef)
			}
			s["patternProperties"] = pp
		case 4:
			s["type"] = "object"
			nm := g.Pick(g.pool)
			if len(g.dropPunct([]string{nm})) == 0 {
				nm = "nested"
			}
			s["definitions"] = O{nm: g.schema(doc, depth+1, allowRef)}
		}
		return s
	}
}

var oaiGenSuffix = regexp.MustCompile(`(?i)(oaigen[0-9]*)+$`)

// CollisionBase folds a definition name onto the class of names Flatten can confuse with it:
// mangled (unless the name is kept as is), lower-cased, stripped of OAIGen[<n>] suffixes.
func CollisionBase(name string, mangled bool) string {
	if mangled {
		name = swag.ToJSONName(name)
	}
	return oaiGenSuffix.ReplaceAllString(strings.ToLower(name), "")
}

// GenFlattenCase draws a bundle in W and an option set.
func GenFlattenCase(d *D, cfg BundleCfg) *FlattenCase {
	g := &bgen{D: d, cfg: cfg, auxDefs: map[string][]string{}, refFree: map[target]bool{}}
	sets := cfg.OptSets
	if len(sets) == 0 {
		sets = AllOptSets
	}
	g.opts = sets[g.Int(0, len(sets)-1)]
	g.layer = g.Int(0, cfg.MaxLayer)
	g.pool = NamePool(g.layer, cfg.Exclude)
	g.Label(fmt.Sprintf("layer:%d", g.layer))
	g.rootDefs = g.dropPunct(g.names(0, 4))
	naux := g.Int(0, 3)
	seenAux := map[string]bool{}
	for i := 0; i < naux; i++ {
		p := g.Pick(AuxPaths)
		if seenAux[p] {
			continue
		}
		seenAux[p] = true
		g.aux = append(g.aux, p)
		ns := g.names(1, 3)
		if len(ns) == 0 {
			ns = []string{"thing"}
		}
		g.auxDefs[p] = ns
	}
	g.Label(fmt.Sprintf("aux:%d", len(g.aux)))
	if len(g.aux) == 0 && !cfg.NoKeepNames && !(cfg.KeepNamesPlainOnly && g.layer > 0) && g.Pct(40) {
		g.opts.KeepNames = true
	}
	// collisions: an auxiliary definition whose folded name meets another definition's must be $ref-free
	all := []target{}
	for _, n := range g.rootDefs {
		all = append(all, target{"", n})
	}
	for _, a := range g.aux {
		for _, n := range g.auxDefs[a] {
			all = append(all, target{a, n})
		}
	}
	for _, x := range all {
		if x.doc == "" {
			continue
		}
		if CollisionBase(x.name, true) == "" {
			// a punctuation-only name mangles to the empty string: the library imports it under the
			// conflict name "oaiGen", i.e. treats it like a name collision
			g.refFree[x] = true
		}
		for _, y := range all {
			if x == y {
				continue
			}
			if CollisionBase(x.name, true) == CollisionBase(y.name, y.doc != "") || CollisionBase(x.name, false) == CollisionBase(y.name, false) {
				g.refFree[x] = true
			}
		}
	}
	if (cfg.NoCollisions || (cfg.NoCollisionsInFull && !g.opts.Minimal && !g.opts.Expand)) && len(g.refFree) > 0 {
		// rename colliding auxiliary definitions apart
		for i, a := range g.aux {
			for j, n := range g.auxDefs[a] {
				if g.refFree[target{a, n}] {
					delete(g.refFree, target{a, n})
					g.auxDefs[a][j] = fmt.Sprintf("u%d%dx", i, j)
				}
			}
		}
	}
	if len(g.refFree) > 0 {
		g.Label("collision")
		if len(g.refFree) > 1 {
			g.Label("collision:multi")
		}
	}

	b := &Bundle{Dir: "/vfs/api", Aux: map[string]O{}}
	g.b = b
	root := O{"swagger": "2.0", "info": O{"title": "t", "version": "1"}}
	defs := O{}
	for _, n := range g.rootDefs {
		defs[n] = g.defSchema("", target{"", n}, true)
	}
	for _, a := range g.aux {
		dd := O{}
		for _, n := range g.auxDefs[a] {
			dd[n] = g.defSchema(a, target{a, n}, !g.refFree[target{a, n}])
		}
		ad := O{"definitions": dd}
		if g.Pct(40) {
			ad["parameters"] = O{
				"rp": O{"name": "rb", "in": "body", "schema": g.schema(a, 1, true)},
				"rq": O{"name": "rq", "in": "query", "type": "integer"},
			}
		}
		if g.Pct(40) {
			r := O{"description": "remote", "schema": g.schema(a, 1, true)}
			if g.Pct(30) {
				r["headers"] = O{"X-Rate": O{"type": "integer"}}
			}
			ad["responses"] = O{"rr": r}
		}
		if g.Pct(40) {
			op := O{"responses": O{"200": O{"description": "pi", "schema": g.schema(a, 1, true)}}}
			if g.Pct(50) {
				op["parameters"] = A{O{"name": "pb", "in": "body", "schema": g.schema(a, 1, true)}}
			}
			g.opMeta(op)
			ad["pathItems"] = O{"pi": O{"get": op}}
		}
		b.Aux[a] = ad
	}
	// shared parameters / responses of the root
	params := O{}
	// shared parameter / response names are plain identifiers: W extends the odd-character
	// alphabet to definition and property names only
	for i, n := range g.sharedNames() {
		if g.Bool() {
			params[n] = O{"name": fmt.Sprintf("b%d", i), "in": "body", "schema": g.schema("", 0, true)}
		} else {
			params[n] = O{"name": fmt.Sprintf("q%d", i), "in": "query", "type": "string"}
		}
	}
	resps := O{}
	for _, n := range g.sharedNames() {
		r := O{"description": "r"}
		if g.Pct(80) {
			r["schema"] = g.schema("", 0, true)
		}
		if g.Pct(30) {
			h := O{"type": "string"}
			if g.Pct(30) {
				h = O{"type": "array", "items": O{"type": "integer"}}
			}
			r["headers"] = O{"X-H": h}
		}
		resps[n] = r
	}
	paths := O{}
	// "/a-b" and "/a_b" differ only by a character that name mangling drops
	pathPool := []string{"/pets", "/pets/{id}", "/", "/a-b", "/a_b", "/a/b"}
	if g.layer >= 1 {
		pathPool = append(pathPool, "/a b/{x}")
	}
	if g.layer >= 2 {
		pathPool = append(pathPool, "/x~y")
	}
	np := g.Int(0, 3)
	for i := 0; i < np; i++ {
		p := g.Pick(pathPool)
		pi := O{}
		wantPathParams := g.Pct(30)
		var pathParam J
		pathHasBody := false
		if wantPathParams {
			pathParam, pathHasBody = g.param(params, true)
		}
		for _, m := range []string{"get", "put", "post", "delete", "options", "head", "patch"} {
			if !g.Pct(25) {
				continue
			}
			op := O{}
			if g.Pct(60) {
				op["operationId"] = fmt.Sprintf("op%d%s", i, m)
			}
			g.opMeta(op)
			if g.Pct(60) {
				var ps A
				hasBody := pathHasBody
				for j := g.Int(1, 2); j > 0; j-- {
					p, b := g.param(params, !hasBody)
					hasBody = hasBody || b
					ps = append(ps, p)
				}
				op["parameters"] = ps
			}
			rs := O{}
			codes := []string{"default", "200", "404"}
			if g.Pct(20) {
				codes = append(codes, g.Pick([]string{"299", "499", "599"})) // codes without a standard status text
			}
			for _, code := range codes {
				if !g.Pct(50) {
					continue
				}
				if as := g.auxWith("responses"); len(as) > 0 && g.Pct(25) {
					g.Label("ref:remote-response")
					rs[code] = O{"$ref": g.Pick(as) + Frag("responses", "rr")}
					continue
				}
				if len(resps) > 0 && g.Pct(35) {
					g.Label("ref:shared-response")
					rs[code] = O{"$ref": Frag("responses", g.Pick(SortedKeys(resps)))}
					continue
				}
				r := O{"description": "r"}
				if g.Pct(80) {
					r["schema"] = g.schema("", 0, true)
				}
				rs[code] = r
			}
			op["responses"] = rs
			pi[m] = op
		}
		if wantPathParams && (len(pi) > 0 || !cfg.NoOplessPathParams) {
			g.Label("path-level-params")
			pi["parameters"] = A{pathParam}
		}
		paths[p] = pi
	}
	if g.Pct(6) {
		// three operations without id whose method + path give the same generated name
		g.Label("three-ops-same-generated-name")
		m := g.Pick([]string{"post", "get", "delete"})
		for _, p := range []string{"/a-b", "/a_b", "/a/b"} {
			pi := Obj(paths[p])
			if pi == nil {
				pi = O{}
				paths[p] = pi
			}
			r := O{"description": "r"}
			if g.Pct(60) {
				r["schema"] = g.schema("", 1, true)
			}
			pi[m] = O{"responses": O{"200": r}}
		}
	}
	if g.Pct(8) {
		// an explicit operation id which equals the name Flatten generates for an operation without id
		// (ids stay unique, as Swagger 2.0 requires)
		type opAt struct {
			p, m string
			op   O
		}
		var withID, without []opAt
		for _, p := range SortedKeys(paths) {
			for _, m := range []string{"delete", "get", "head", "options", "patch", "post", "put"} {
				if op := Obj(Obj(paths[p])[m]); op != nil {
					if _, has := op["operationId"]; has {
						withID = append(withID, opAt{p, m, op})
					} else {
						without = append(without, opAt{p, m, op})
					}
				}
			}
		}
		if len(withID) > 0 && len(without) > 0 {
			a, b := withID[g.Int(0, len(withID)-1)], without[g.Int(0, len(without)-1)]
			a.op["operationId"] = swag.ToGoName(b.m + " " + b.p)
			g.Label("id-equals-generated-key")
		}
	}
	if as := g.auxWith("pathItems"); len(as) > 0 && g.Pct(50) {
		g.Label("ref:remote-pathitem")
		paths["/remote"] = O{"$ref": g.Pick(as) + Frag("pathItems", "pi")}
	}
	if len(g.aux) > 0 && g.Pct(15) {
		// a path item that is a whole auxiliary document of its own
		g.Label("ref:whole-document-pathitem")
		op := O{"responses": O{"200": O{"description": "whole", "schema": g.schema("other/pi.json", 1, true)}}}
		if g.Pct(50) {
			op["parameters"] = A{O{"name": "wb", "in": "body", "schema": g.schema("other/pi.json", 1, true)}}
		}
		b.Aux["other/pi.json"] = O{"post": op}
		paths["/whole"] = O{"$ref": "other/pi.json"}
	}
	if len(defs) > 0 {
		root["definitions"] = defs
	}
	if len(params) > 0 {
		root["parameters"] = params
	}
	if len(resps) > 0 {
		root["responses"] = resps
	}
	root["paths"] = paths
	b.Root = root
	if cfg.AnonPtrs && !g.opts.Expand {
		g.addAnonPointers(root)
	}
	return &FlattenCase{Bundle: *b, Opts: g.opts, GenLabels: g.LabelList()}
}

// opMeta sometimes gives an operation its own media types / security requirement, drawn from
// pools that are larger than what any single document uses (so that one operation may be the only
// user of a value).
func (g *bgen) opMeta(op O) {
	if g.Pct(15) {
		op["consumes"] = A{g.Pick([]string{"application/json", "text/plain", "application/xml", "text/csv"})}
	}
	if g.Pct(15) {
		op["produces"] = A{g.Pick([]string{"application/json", "text/plain", "application/xml", "text/csv"})}
	}
	if g.Pct(10) {
		op["security"] = A{O{g.Pick([]string{"sa", "sb", "sc"}): A{}}}
	}
}

func (g *bgen) auxWith(section string) []string {
	var out []string
	for _, a := range g.aux {
		if _, ok := g.b.Aux[a][section]; ok {
			out = append(out, a)
		}
	}
	return out
}

// nestPointer replaces the element schema (items / additionalProperties) of the pointer target t, when it is
// an array or a map, by an anonymous pointer to another target which lies in another definition and is
// $ref-free (so that no reference cycle through pointers can arise).
func (g *bgen) nestPointer(root O, t []string, tgts [][]string) bool {
	if t[0] != "definitions" {
		return false
	}
	var at J = root
	for _, k := range t {
		switch x := at.(type) {
		case map[string]interface{}:
			at = x[k]
		case []interface{}:
			i, err := strconv.Atoi(k)
			if err != nil || i >= len(x) {
				return false
			}
			at = x[i]
		default:
			return false
		}
	}
	tgt, ok := at.(map[string]interface{})
	if !ok {
		return false
	}
	slot := ""
	for _, k := range []string{"items", "additionalProperties"} {
		if _, isObj := tgt[k].(map[string]interface{}); isObj {
			slot = k
		}
	}
	if slot == "" {
		return false
	}
	o := g.refFreeTarget(root, t[1], tgts)
	if o == nil {
		return false
	}
	tgt[slot] = O{"$ref": Frag(o...)}
	g.Label("anon-pointer:nested")
	return true
}

// refFreeTarget picks a pointer target (a direct sub-schema of a root definition other than `not`, or the schema
// of a shared parameter / response when those are pointer targets at all) without any $ref inside.
func (g *bgen) refFreeTarget(root O, not string, tgts [][]string) []string {
	var cands [][]string
	for _, o := range tgts {
		if o[0] == "definitions" && o[1] == not {
			continue
		}
		var v J = root
		for _, k := range o {
			switch x := v.(type) {
			case map[string]interface{}:
				v = x[k]
			case []interface{}:
				i, _ := strconv.Atoi(k)
				v = x[i]
			}
		}
		if !hasRefInside(v) || g.refToLeafDefinition(root, v, not) {
			cands = append(cands, o)
		}
	}
	if len(cands) == 0 {
		return nil
	}
	return cands[g.Int(0, len(cands)-1)]
}

// refToLeafDefinition: v is nothing but a $ref to a root definition (other than `not`) which holds no $ref itself,
// so that pointing at v cannot close a cycle either.
func (g *bgen) refToLeafDefinition(root O, v J, not string) bool {
	m, ok := v.(map[string]interface{})
	if !ok || len(m) != 1 {
		return false
	}
	r, _ := m["$ref"].(string)
	_, toks, err := ParseRef(r)
	if err != nil || !strings.HasPrefix(r, "#/definitions/") || len(toks) != 2 || toks[1] == not {
		return false
	}
	d, ok := Obj(root["definitions"])[toks[1]]
	return ok && !hasRefInside(d)
}

func hasRefInside(v J) bool {
	switch x := v.(type) {
	case map[string]interface{}:
		if _, ok := x["$ref"]; ok {
			return true
		}
		for _, e := range x {
			if hasRefInside(e) {
				return true
			}
		}
	case []interface{}:
		for _, e := range x {
			if hasRefInside(e) {
				return true
			}
		}
	}
	return false
}

// param draws one parameter; isBody tells whether it is (or refers to) a body parameter.
// Swagger 2.0 allows at most one body parameter per operation (path-level ones included): when
// allowBody is false only non-body parameters are drawn.
func (g *bgen) param(shared O, allowBody bool) (p J, isBody bool) {
	if as := g.auxWith("parameters"); len(as) > 0 && g.Pct(25) {
		g.Label("ref:remote-parameter")
		which := "rq"
		if allowBody && g.Bool() {
			which = "rp"
		}
		return O{"$ref": g.Pick(as) + Frag("parameters", which)}, which == "rp"
	}
	if len(shared) > 0 && g.Pct(35) {
		var names []string
		for _, n := range SortedKeys(shared) {
			if allowBody || Obj(shared[n])["in"] != "body" {
				names = append(names, n)
			}
		}
		if len(names) > 0 {
			g.Label("ref:shared-parameter")
			n := g.Pick(names)
			return O{"$ref": Frag("parameters", n)}, Obj(shared[n])["in"] == "body"
		}
	}
	if allowBody && g.Pct(60) {
		return O{"name": "body", "in": "body", "schema": g.schema("", 0, true)}, true
	}
	return O{"name": "q", "in": "query", "type": "array", "items": O{"type": "string"}}, false
}

// addAnonPointers plants $refs to direct sub-schemas of root definitions, or to the schema of a
// shared parameter / response (the latter only without RemoveUnused). Holders are fresh positions
// outside every pointer-target subtree; targets are computed before any holder exists, so they
// contain no anonymous pointer themselves.
func (g *bgen) addAnonPointers(root O) {
	defs := Obj(root["definitions"])
	var tgts [][]string
	for _, d := range SortedKeys(defs) {
		s := Obj(defs[d])
		if _, isAlias := s["$ref"]; isAlias {
			continue
		}
		for _, p := range SortedKeys(Obj(s["properties"])) {
			tgts = append(tgts, []string{"definitions", d, "properties", p})
		}
		if _, ok := s["items"].(map[string]interface{}); ok {
			tgts = append(tgts, []string{"definitions", d, "items"})
		}
		if its, ok := s["items"].([]interface{}); ok && len(its) > 0 {
			tgts = append(tgts, []string{"definitions", d, "items", "0"})
		}
		if _, ok := s["additionalProperties"].(map[string]interface{}); ok {
			tgts = append(tgts, []string{"definitions", d, "additionalProperties"})
		}
		if _, ok := s["additionalItems"].(map[string]interface{}); ok {
			tgts = append(tgts, []string{"definitions", d, "additionalItems"})
		}
		if a := Arr(s["allOf"]); len(a) > 0 {
			tgts = append(tgts, []string{"definitions", d, "allOf", fmt.Sprint(len(a) - 1)})
		}
		for _, k := range SortedKeys(Obj(s["definitions"])) {
			tgts = append(tgts, []string{"definitions", d, "definitions", k})
		}
	}
	if !g.opts.RemoveUnused && !g.cfg.NoSharedSchemaPtrs {
		for _, p := range SortedKeys(Obj(root["parameters"])) {
			if _, ok := Obj(Obj(root["parameters"])[p])["schema"]; ok {
				tgts = append(tgts, []string{"parameters", p, "schema"})
			}
		}
		for _, r := range SortedKeys(Obj(root["responses"])) {
			if _, ok := Obj(Obj(root["responses"])[r])["schema"]; ok {
				tgts = append(tgts, []string{"responses", r, "schema"})
			}
		}
	}
	if len(tgts) == 0 {
		return
	}
	n := g.Int(0, 2)
	if n == 0 {
		return
	}
	if defs == nil {
		defs = O{}
	}
	defer func() {
		if len(defs) > 0 {
			root["definitions"] = defs
		}
	}()
	paths := Obj(root["paths"])
	nested := false
	for i := 0; i < n; i++ {
		t := tgts[g.Int(0, len(tgts)-1)]
		ref := O{"$ref": Frag(t...)}
		g.Label("anon-pointer")
		if !nested && g.Pct(30) {
			// a pointer held INSIDE the target of this pointer: the element schema of a target which is
			// a container becomes a pointer to a $ref-free target of another definition (no cycle)
			nested = g.nestPointer(root, t, tgts)
			if !nested {
				// otherwise a fresh container definition whose element schema is a pointer becomes the target
				if o := g.refFreeTarget(root, "", tgts); o != nil {
					name := fmt.Sprintf("nest%d", i)
					slot, kind := "items", "array"
					if g.Bool() {
						slot, kind = "additionalProperties", "object"
					}
					defs[name] = O{"type": "object", "properties": O{"p": O{"type": kind, slot: O{"$ref": Frag(o...)}}}}
					t = []string{"definitions", name, "properties", "p"}
					ref = O{"$ref": Frag(t...)}
					nested = true
					g.Label("anon-pointer:nested")
				}
			}
		}
		g.Label("anon-pointer:" + t[0])
		switch g.Int(0, 7) {
		case 5:
			// held inside an inline complex schema of a response (which full flatten names first)
			paths[fmt.Sprintf("/ptr%d", i)] = O{"get": O{"responses": O{"200": O{"description": "p", "schema": O{"type": "object", "properties": O{"first": ref, "n": O{"type": "integer"}}}}}}}
		case 6:
			paths[fmt.Sprintf("/ptr%d", i)] = O{"put": O{"parameters": A{O{"name": "b", "in": "body", "schema": O{"type": "array", "items": A{O{"type": "string"}, ref}}}}, "responses": O{"204": O{"description": "n"}}}}
		case 7:
			defs[fmt.Sprintf("aholder%d", i)] = O{"type": "object", "properties": O{"inner": O{"type": "object", "properties": O{"h": ref}}}}
		case 0:
			paths[fmt.Sprintf("/ptr%d", i)] = O{"get": O{"responses": O{"200": O{"description": "p", "schema": ref}}}}
		case 1:
			defs[fmt.Sprintf("holder%d", i)] = O{"type": "object", "properties": O{"h": ref}}
		case 2:
			defs[fmt.Sprintf("holder%d", i)] = O{"type": "array", "items": ref}
		case 3:
			paths[fmt.Sprintf("/ptr%d", i)] = O{"post": O{"parameters": A{O{"name": "b", "in": "body", "schema": ref}}, "responses": O{"204": O{"description": "n"}}}}
		case 4:
			defs[fmt.Sprintf("holder%d", i)] = O{"allOf": A{ref, O{"type": "object"}}}
		}
	}
}
