// Package gen holds the rapid generators. Every random choice is a rapid draw; every draw's
// minimum is the simplest choice, so that rapid shrinks towards small, plain documents.
package gen

import (
	"fmt"
	mathbits "math/bits"
	"sort"

	"pgregory.net/rapid"
)

// D wraps a rapid.T with numbered labels and label counting.
type D struct {
	T      *rapid.T
	n      int
	Labels map[string]bool
}

func NewD(t *rapid.T) *D { return &D{T: t, Labels: map[string]bool{}} }

func (d *D) lbl() string { d.n++; return fmt.Sprintf("d%d", d.n) }

var boolGen = rapid.Bool()

// bits draws k independent fair bits (rapid's integer generators are deliberately biased towards
// small values - a measured Pct(80) built on IntRange(0,99) was true in under half of the cases -
// whereas Bool is a fair coin). All-false is the minimum, so every derived draw shrinks to its
// simplest choice.
func (d *D) bits(k int) uint64 {
	var u uint64
	for i := 0; i < k; i++ {
		if boolGen.Draw(d.T, d.lbl()) {
			u |= 1 << uint(i)
		}
	}
	return u
}

// Int draws lo..hi (close to uniformly), shrinking to lo.
func (d *D) Int(lo, hi int) int {
	n := uint64(hi - lo + 1)
	if n <= 1 {
		return lo
	}
	return lo + int(d.bits(mathbits.Len64(n-1)+4)%n)
}

// Pct is true with probability p/100 (granularity 1/128) and shrinks to false.
func (d *D) Pct(p int) bool { return d.bits(7)*100/128 >= uint64(100-p) }

func (d *D) Bool() bool { return boolGen.Draw(d.T, d.lbl()) }

// Pick draws an element, shrinking to the first.
func (d *D) Pick(ss []string) string { return ss[d.Int(0, len(ss)-1)] }

func (d *D) U64() uint64 { return rapid.Uint64().Draw(d.T, d.lbl()) }

// Subset keeps each element with probability p/100.
func (d *D) Subset(ss []string, p int) []string {
	var out []string
	for _, s := range ss {
		if d.Pct(p) {
			out = append(out, s)
		}
	}
	return out
}

func (d *D) Label(l string) { d.Labels[l] = true }

func (d *D) LabelList() []string {
	out := make([]string, 0, len(d.Labels))
	for l := range d.Labels {
		out = append(out, l)
	}
	sort.Strings(out)
	return out
}
