package gen

import (
	"fmt"

	. "verif/harness/jsonx"
)

// MixinCase is a primary document and a sequence of 0..3 mixins.
type MixinCase struct {
	Primary   O        `json:"primary"`
	Mixins    []O      `json:"mixins"`
	GenLabels []string `json:"genLabels,omitempty"`
}

type MixinCfg struct {
	IDFocus bool // C18: more operations, ids from a small pool so collisions are frequent
}

func mixinDoc(d *D, idx int, cfg MixinCfg) O {
	doc := O{"swagger": "2.0"}
	sf := func(f string, a ...interface{}) string { return fmt.Sprintf(f, a...) }
	if d.Pct(40) {
		doc["host"] = sf("h%d", idx)
	}
	if d.Pct(40) {
		doc["basePath"] = sf("/b%d", idx)
	}
	if d.Pct(60) {
		info := O{}
		if d.Pct(50) {
			info["title"] = sf("t%d", idx)
		}
		if d.Pct(50) {
			info["version"] = sf("v%d", idx)
		}
		if d.Pct(30) {
			info["description"] = sf("d%d", idx)
		}
		if d.Pct(30) {
			info["termsOfService"] = sf("tos%d", idx)
		}
		if d.Pct(40) {
			c := O{}
			if d.Pct(50) {
				c["name"] = sf("cn%d", idx)
			}
			if d.Pct(50) {
				c["url"] = sf("cu%d", idx)
			}
			if d.Pct(50) {
				c["email"] = sf("ce%d", idx)
			}
			for _, k := range d.Subset([]string{"x-c1", "x-c2", "x-shared"}, 30) {
				c[k] = sf("%s-%d", k, idx)
			}
			info["contact"] = c
		}
		if d.Pct(40) {
			l := O{}
			if d.Pct(50) {
				l["name"] = sf("ln%d", idx)
			}
			if d.Pct(50) {
				l["url"] = sf("lu%d", idx)
			}
			for _, k := range d.Subset([]string{"x-l1", "x-l2", "x-shared"}, 30) {
				l[k] = sf("%s-%d", k, idx)
			}
			info["license"] = l
		}
		for _, k := range d.Subset([]string{"x-i1", "x-i2", "x-shared"}, 30) {
			info[k] = sf("%s-%d", k, idx)
		}
		doc["info"] = info
	} else {
		d.Label(sf("no-info:%s", side(idx)))
	}
	if d.Pct(35) {
		ed := O{}
		if d.Pct(50) {
			ed["description"] = sf("edd%d", idx)
		}
		if d.Pct(60) {
			ed["url"] = sf("edu%d", idx)
		}
		doc["externalDocs"] = ed
		d.Label(sf("externalDocs:%s", side(idx)))
	}
	for _, k := range d.Subset([]string{"x-a", "x-b", "x-c", "x-shared"}, 30) {
		doc[k] = sf("%s-%d", k, idx)
	}
	strs := func(pool []string, key string) {
		if v := d.Subset(pool, 35); len(v) > 0 {
			a := A{}
			for _, x := range v {
				a = append(a, x)
			}
			doc[key] = a
		}
	}
	strs([]string{"application/json", "text/plain", "application/xml"}, "consumes")
	strs([]string{"application/json", "text/plain", "application/xml"}, "produces")
	strs([]string{"http", "https", "ws"}, "schemes")
	if tags := d.Subset([]string{"ta", "tb", "tc"}, 35); len(tags) > 0 {
		a := A{}
		for _, x := range tags {
			a = append(a, O{"name": x, "description": sf("%s-%d", x, idx)})
		}
		doc["tags"] = a
	}
	if sd := d.Subset([]string{"sa", "sb", "sc"}, 35); len(sd) > 0 {
		m := O{}
		for _, x := range sd {
			m[x] = O{"type": "basic", "description": sf("%s-%d", x, idx)}
		}
		doc["securityDefinitions"] = m
	}
	if sr := d.Subset([]string{"sa", "sb", "sc"}, 35); len(sr) > 0 {
		a := A{}
		for _, x := range sr {
			// scopes from a tiny pool: two requirements may name the same scheme with different scopes
			sc := A{}
			for _, v := range d.Subset([]string{"read", "write"}, 30) {
				sc = append(sc, v)
			}
			req := O{x: sc}
			if d.Pct(15) {
				req["sz"] = A{}
			}
			a = append(a, req)
		}
		doc["security"] = a
	}
	keyed := func(key string, pool []string, mk func(string) J) {
		if ks := d.Subset(pool, 35); len(ks) > 0 {
			m := O{}
			for _, k := range ks {
				m[k] = mk(k)
			}
			doc[key] = m
		}
	}
	keyed("definitions", []string{"da", "db", "dc"}, func(k string) J { return O{"type": "string", "description": sf("%s-%d", k, idx)} })
	keyed("parameters", []string{"pa", "pb", "pc"}, func(k string) J {
		return O{"name": k, "in": "query", "type": "string", "description": sf("%s-%d", k, idx)}
	})
	keyed("responses", []string{"ra", "rb", "rc"}, func(k string) J {
		if d.Pct(25) {
			return O{"description": k} // the same value in every document: a collision of identical entries
		}
		return O{"description": sf("%s-%d", k, idx)}
	})
	if d.Pct(80) {
		paths := O{}
		// ids are unique within one document: drawn without replacement from a small pool
		avail := []string{"op0", "op1", "op2", "op3", "op4", "op5", "op6", "op7"}
		pathPool := []string{"/a", "/b", "/c", "/d"}
		pathPct, methPct := 40, 30
		if cfg.IDFocus {
			// disjoint paths per document so that operations do get merged, same small id pool
			pathPool = []string{sf("/p%d/a", idx), sf("/p%d/b", idx), "/shared"}
			pathPct, methPct = 70, 40
		}
		for _, p := range d.Subset(pathPool, pathPct) {
			pi := O{}
			for _, m := range d.Subset(apiMethods, methPct) {
				op := O{"responses": O{"200": O{"description": sf("doc%d", idx)}}}
				if d.Pct(70) && len(avail) > 0 {
					// unique within the document: drawn without replacement
					i := d.Int(0, len(avail)-1)
					op["operationId"] = avail[i]
					avail = append(avail[:i:i], avail[i+1:]...)
				} else {
					d.Label(sf("op-without-id:%s", side(idx)))
				}
				d.Label("mixin-method:" + m)
				pi[m] = op
			}
			paths[p] = pi
		}
		doc["paths"] = paths
	} else {
		d.Label(sf("no-paths:%s", side(idx)))
	}
	return doc
}

func side(idx int) string {
	if idx == 0 {
		return "primary"
	}
	return "mixin"
}

// GenMixinCase draws a primary and 0..3 mixins.
func GenMixinCase(d *D, cfg MixinCfg) *MixinCase {
	c := &MixinCase{Primary: mixinDoc(d, 0, cfg)}
	lo := 0
	if cfg.IDFocus {
		lo = 1
	}
	n := d.Int(lo, 3)
	for i := 0; i < n; i++ {
		c.Mixins = append(c.Mixins, mixinDoc(d, i+1, cfg))
	}
	d.Label(fmt.Sprintf("mixins:%d", n))
	c.GenLabels = d.LabelList()
	return c
}
