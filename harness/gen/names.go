package gen

import (
	"strings"

	"github.com/go-openapi/swag"
)

// The name alphabet is layered: plain ⊂ +space/unicode ⊂ +JSON-pointer specials ⊂ +URL-reserved.
// Index 0 of every pool is the plainest name. Excluded as the properties say: '%', '.', '..', the
// empty name, the double quote and the backslash; also "$ref" and "x-..." as names.
var (
	identNames   = []string{"pet", "Pet", "owner", "tag", "Tag", "thing", "PET"}
	genLikeNames = []string{"petOwner", "PetOwner", "petOwnerTag", "petOwnerOAIGen", "op0getOKBody", "op0getParamsBody", "petItems", "petAllOf1", "op0getDefaultBody"}
	keywordNames = []string{"items", "properties", "schema", "default", "200", "0", "definitions", "allOf", "additionalProperties"}
	spaceNames   = []string{"pet owner", "é", "日本", "Tag é"}
	ptrNames     = []string{"a/b", "til~de", "~1", "x/~y", "pet/owner", "~"}
	urlNames     = []string{"q?x", "h#x", "br[0]", "cu{x}", "a&b=c", "a+b", "x y/z~w#?", "h#y", "?", "[]", "{}", "#"}
)

// NameClasses tells which escaping-relevant character classes a name contains.
func NameClasses(n string) []string {
	var out []string
	if strings.Contains(n, " ") {
		out = append(out, "space")
	}
	for _, r := range n {
		if r > 127 {
			out = append(out, "unicode")
			break
		}
	}
	if strings.Contains(n, "/") {
		out = append(out, "slash")
	}
	if strings.Contains(n, "~") {
		out = append(out, "tilde")
	}
	if strings.Contains(n, "#") {
		out = append(out, "hash")
	}
	if strings.Contains(n, "?") {
		out = append(out, "question")
	}
	if strings.ContainsAny(n, "[]") {
		out = append(out, "bracket")
	}
	if strings.ContainsAny(n, "{}") {
		out = append(out, "brace")
	}
	if strings.ContainsAny(n, "&=+") {
		out = append(out, "urlmisc")
	}
	if strings.Contains(n, "OAIGen") {
		out = append(out, "oaigen")
	}
	if swag.ToJSONName(n) == "" {
		out = append(out, "punct") // punctuation only: mangles to the empty string
	}
	return out
}

// NeedsPtrEscape / NeedsURLEscape classify names for the non-triviality rules.
func NeedsPtrEscape(n string) bool { return strings.ContainsAny(n, "/~") }

func NeedsURLEscape(n string) bool {
	for _, c := range NameClasses(n) {
		switch c {
		case "space", "unicode", "hash", "question", "bracket", "brace":
			return true
		}
	}
	return false
}

// NamePool returns the pool for a layer (0..3), minus names containing an excluded class.
func NamePool(layer int, exclude map[string]bool) []string {
	pool := append([]string{}, identNames...)
	pool = append(pool, genLikeNames...)
	pool = append(pool, keywordNames...)
	if layer >= 1 {
		pool = append(pool, spaceNames...)
	}
	if layer >= 2 {
		pool = append(pool, ptrNames...)
	}
	if layer >= 3 {
		pool = append(pool, urlNames...)
	}
	if len(exclude) == 0 {
		return pool
	}
	var out []string
	for _, n := range pool {
		ok := true
		for _, c := range NameClasses(n) {
			if exclude[c] {
				ok = false
			}
		}
		if ok {
			out = append(out, n)
		}
	}
	return out
}
