package gen

import (
	"fmt"

	. "verif/harness/jsonx"
)

// SchemaCase (C20): a root document providing $ref targets, and one probe schema.
type SchemaCase struct {
	Defs      O        `json:"defs"`
	Probe     O        `json:"probe"`
	GenLabels []string `json:"genLabels,omitempty"`
}

type sgen struct {
	*D
	defs     []string
	maxDepth int
}

func (g *sgen) schema(d int, allowRef bool) O {
	k := g.Int(0, 9)
	if d >= g.maxDepth && k > 1 && k != 9 {
		k = 0
	}
	switch k {
	case 0:
		s := O{"type": g.Pick([]string{"string", "integer", "number", "boolean"})}
		if g.Pct(20) {
			s["format"] = g.Pick([]string{"date", "int32", "uuid"})
		}
		if g.Pct(20) {
			s["enum"] = A{"a"}
		}
		return s
	case 1:
		if g.Pct(50) {
			return O{"type": "object"}
		}
		return O{}
	case 2:
		s := O{"type": "object", "properties": O{"p": g.schema(d+1, true)}}
		if g.Pct(20) {
			s["discriminator"] = "p"
			g.Label("discriminator")
		}
		if g.Pct(20) {
			s["additionalProperties"] = true
		} else if g.Pct(15) {
			s["additionalProperties"] = g.schema(d+1, true)
		}
		if g.Pct(15) {
			delete(s, "type") // "type" is optional
			g.Label("object:typeless")
		}
		return s
	case 3:
		if g.Pct(20) {
			return O{"type": "object", "additionalProperties": true}
		}
		if g.Pct(15) {
			g.Label("map:typeless")
			return O{"additionalProperties": g.schema(d+1, true)}
		}
		return O{"type": "object", "additionalProperties": g.schema(d+1, true)}
	case 4:
		if g.Pct(10) {
			return O{"type": "array"}
		}
		return O{"type": "array", "items": g.schema(d+1, true)}
	case 5:
		s := O{"type": "array", "items": A{g.schema(d+1, true)}}
		if g.Pct(25) {
			delete(s, "type") // "type" is optional: positional items make a tuple all the same
			g.Label("tuple:typeless")
		}
		if g.Pct(40) {
			if g.Bool() {
				s["additionalItems"] = g.schema(d+1, true)
			} else {
				s["additionalItems"] = true
			}
			g.Label("tuple-with-additionalItems")
		} else {
			g.Label("tuple")
		}
		return s
	case 6:
		s := O{"allOf": A{g.schema(d+1, true)}}
		if g.Pct(30) {
			s["allOf"] = A{g.schema(d+1, true), g.schema(d+1, true)}
		}
		if g.Pct(20) {
			if g.Bool() {
				s["additionalProperties"] = true
			} else {
				s["additionalProperties"] = g.schema(d+1, true)
			}
			g.Label("allOf+additionalProperties")
		}
		return s
	case 7:
		return O{"type": "array", "items": g.schema(d+1, true)}
	case 8:
		return O{"type": "object", "additionalProperties": g.schema(d+1, true)}
	default:
		if !allowRef || len(g.defs) == 0 {
			return O{"type": "string"}
		}
		g.Label("ref")
		return O{"$ref": "#/definitions/" + g.Pick(g.defs)}
	}
}

// GenSchemaCase draws 1..4 definitions (bodies are never bare $refs, so there is no alias cycle;
// containers may refer to themselves or to each other) and one probe schema.
func GenSchemaCase(d *D, maxDepth int) *SchemaCase {
	g := &sgen{D: d, maxDepth: maxDepth}
	n := g.Int(1, 4)
	for i := 0; i < n; i++ {
		g.defs = append(g.defs, fmt.Sprintf("d%d", i))
	}
	defs := O{}
	for _, name := range g.defs {
		defs[name] = g.schema(0, false)
	}
	return &SchemaCase{Defs: defs, Probe: g.schema(0, true), GenLabels: g.LabelList()}
}
