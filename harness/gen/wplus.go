package gen

import (
	"fmt"
	"strings"

	. "verif/harness/jsonx"
)

// WPlusKinds are the extensions of class W that C09 quantifies over. Each is planted by one
// labelled switch on top of a W bundle. Kinds marked "unresolvable" make some $ref impossible to
// resolve: Flatten must then return an error (ContinueOnError is off).
var WPlusKinds = []string{
	"dangling-local-definition",          // unresolvable
	"dangling-remote-file",               // unresolvable
	"dangling-remote-fragment",           // unresolvable
	"dangling-pointer",                   // unresolvable
	"dangling-pointer-to-absent-keyword", // unresolvable
	"dangling-ref-in-simple-items",       // unresolvable
	"dangling-shared-object-ref",         // unresolvable: parameter / response / path item $ref
	"back-reference-to-root",
	"pointer-to-operation-schema",
	"pointer-to-nested-inline",
	"pointer-nested-in-target",
	"pointer-cycle",
	"pointer-cycle-through-items",
	"self-pointer",
	"colliding-import-with-refs",
	"colliding-imports-referring-to-each-other",
	"ref-in-simple-items",
	"whole-document-schema-ref",
	"bare-ref-cycle",
	"pointer-to-non-schema",
}

func Unresolvable(kind string) bool {
	switch kind {
	case "dangling-local-definition", "dangling-remote-file", "dangling-remote-fragment", "dangling-pointer", "dangling-pointer-to-absent-keyword", "dangling-ref-in-simple-items", "dangling-shared-object-ref":
		return true
	}
	return false
}

// WPlusCase is a W bundle with 0..2 W+ switches applied.
type WPlusCase struct {
	FlattenCase
	Kinds []string `json:"kinds,omitempty"`
	// RawRoot, when set, is served as the root document instead of the serialisation of Root
	// (byte-level fuzzing: duplicate keys, odd numbers, key order are preserved).
	RawRoot string `json:"rawRoot,omitempty"`
	// NoProbe skips the New/Schema probing that normally precedes Flatten (regression cases that are
	// about Flatten itself on a document on which Schema has an open finding).
	NoProbe bool `json:"noProbe,omitempty"`
}

func holderPath(root O, i int, ref O) {
	paths := Obj(root["paths"])
	if paths == nil {
		paths = O{}
		root["paths"] = paths
	}
	paths[fmt.Sprintf("/wplus%d", i)] = O{"get": O{"responses": O{"200": O{"description": "w", "schema": ref}}}}
}

func ensureDefs(root O) O {
	defs := Obj(root["definitions"])
	if defs == nil {
		defs = O{}
		root["definitions"] = defs
	}
	return defs
}

// GenWPlusCase draws a W bundle and applies a drawn set of W+ switches.
func GenWPlusCase(d *D, cfg BundleCfg, allowed []string) *WPlusCase {
	fc := GenFlattenCase(d, cfg)
	c := &WPlusCase{FlattenCase: *fc}
	n := d.Int(0, 2)
	root := c.Root
	for i := 0; i < n; i++ {
		kind := d.Pick(allowed)
		applied := true //nolint
		switch kind {
		case "dangling-local-definition":
			name := "nope"
			if ks := SortedKeys(Obj(root["definitions"])); len(ks) > 0 && d.Bool() {
				// a name that differs from an existing definition by letter case only
				k := d.Pick(ks)
				if up := strings.ToUpper(k); up != k && Obj(root["definitions"])[up] == nil {
					name = up
				} else if lo := strings.ToLower(k); lo != k && Obj(root["definitions"])[lo] == nil {
					name = lo
				}
			}
			holderPath(root, i, O{"$ref": Frag("definitions", name)})
		case "dangling-remote-file":
			holderPath(root, i, O{"$ref": "missing.json#/definitions/x"})
		case "dangling-remote-fragment":
			if len(c.Aux) == 0 {
				c.Aux["d.json"] = O{"definitions": O{"thing": O{"type": "string"}}}
			}
			holderPath(root, i, O{"$ref": SortedKeys(func() O {
				o := O{}
				for k := range c.Aux {
					o[k] = nil
				}
				return o
			}())[0] + "#/definitions/nope"})
		case "dangling-pointer":
			defs := ensureDefs(root)
			defs["dp"] = O{"type": "object", "properties": O{"a": O{"type": "string"}}}
			holderPath(root, i, O{"$ref": "#/definitions/dp/" + d.Pick([]string{"properties/nope", "allOf/0", "items/0", "definitions/x"})})
		case "dangling-pointer-to-absent-keyword":
			// a pointer to a schema keyword (held in a pointer field of the model) that the target does not have
			defs := ensureDefs(root)
			defs["dk"] = O{"type": "object", "properties": O{"a": O{"type": "string"}}}
			holderPath(root, i, O{"$ref": "#/definitions/dk/" + d.Pick([]string{"additionalProperties", "items", "not", "additionalItems"})})
		case "back-reference-to-root":
			// an auxiliary definition referring back to a root definition, reached from the root
			defs := ensureDefs(root)
			defs["backTarget"] = O{"type": "object", "properties": O{"id": O{"type": "integer"}}}
			c.Aux["aux/back.json"] = O{"definitions": O{"viaRoot": O{"type": "object", "properties": O{"r": O{"$ref": "../root.json#/definitions/backTarget"}}}}}
			holderPath(root, i, O{"$ref": "aux/back.json#/definitions/viaRoot"})
		case "pointer-to-operation-schema":
			paths := Obj(root["paths"])
			if paths == nil {
				paths = O{}
				root["paths"] = paths
			}
			paths["/wsrc"] = O{"get": O{"responses": O{"200": O{"description": "s", "schema": O{"type": "object", "properties": O{"n": O{"type": "string"}}}}}}}
			holderPath(root, i, O{"$ref": "#/paths/~1wsrc/get/responses/200/schema"})
		case "pointer-to-nested-inline":
			defs := ensureDefs(root)
			defs["deepHost"] = O{"type": "object", "properties": O{"a": O{"type": "object", "properties": O{"b": O{"type": "object", "properties": O{"c": O{"type": "string"}}}}}}}
			holderPath(root, i, O{"$ref": "#/definitions/deepHost/properties/a/properties/b"})
		case "pointer-nested-in-target":
			defs := ensureDefs(root)
			defs["outer"] = O{"type": "object", "properties": O{"t": O{"type": "object", "properties": O{"inner": O{"$ref": "#/definitions/outer/properties/u"}}}, "u": O{"type": "object", "properties": O{"x": O{"type": "integer"}}}}}
			holderPath(root, i, O{"$ref": "#/definitions/outer/properties/t"})
		case "pointer-cycle":
			defs := ensureDefs(root)
			defs["cycA"] = O{"type": "object", "properties": O{"x": O{"$ref": "#/definitions/cycB/properties/y"}}}
			defs["cycB"] = O{"type": "object", "properties": O{"y": O{"$ref": "#/definitions/cycA/properties/x"}}}
			holderPath(root, i, O{"$ref": "#/definitions/cycA"})
		case "pointer-cycle-through-items":
			// a cycle made only of pointers to items / additionalProperties positions
			defs := ensureDefs(root)
			defs["cyI"] = O{"type": "array", "items": O{"$ref": "#/definitions/cyM/additionalProperties"}}
			defs["cyM"] = O{"type": "object", "additionalProperties": O{"$ref": "#/definitions/cyI/items"}}
			if d.Bool() {
				defs["cyT"] = O{"type": "array", "items": A{O{"$ref": "#/definitions/cyT/items/0"}}}
			}
			holderPath(root, i, O{"$ref": "#/definitions/cyI"})
		case "self-pointer":
			defs := ensureDefs(root)
			defs["selfP"] = O{"type": "object", "properties": O{"me": O{"$ref": "#/definitions/selfP/properties/me"}}}
			holderPath(root, i, O{"$ref": "#/definitions/selfP"})
		case "colliding-import-with-refs":
			defs := ensureDefs(root)
			defs["clash"] = O{"type": "object", "properties": O{"local": O{"type": "string"}}}
			c.Aux["other/clash.json"] = O{"definitions": O{
				"clash": O{"type": "object", "properties": O{"remote": O{"$ref": "#/definitions/leaf"}, "again": O{"$ref": "#/definitions/clash"}}},
				"leaf":  O{"type": "integer"},
			}}
			holderPath(root, i, O{"$ref": "other/clash.json#/definitions/clash"})
		case "colliding-imports-referring-to-each-other":
			defs := ensureDefs(root)
			defs["mutA"] = O{"type": "object", "properties": O{"local": O{"type": "string"}}}
			defs["mutB"] = O{"type": "integer"}
			c.Aux["other/mut.json"] = O{"definitions": O{
				"mutA": O{"type": "object", "properties": O{"b": O{"$ref": "#/definitions/mutB"}}},
				"mutB": O{"type": "object", "properties": O{"a": O{"$ref": "#/definitions/mutA"}}},
			}}
			holderPath(root, i, O{"$ref": "other/mut.json#/definitions/mutA"})
			if d.Bool() {
				defs["mutHolder"] = O{"type": "array", "items": O{"$ref": "other/mut.json#/definitions/mutB"}}
			}
		case "dangling-shared-object-ref":
			paths := Obj(root["paths"])
			if paths == nil {
				paths = O{}
				root["paths"] = paths
			}
			key := fmt.Sprintf("/wplus%d", i)
			switch d.Int(0, 4) {
			case 0:
				paths[key] = O{"get": O{"parameters": A{O{"$ref": "#/parameters/missing"}}, "responses": O{"200": O{"description": "w"}}}}
			case 1:
				paths[key] = O{"get": O{"responses": O{"200": O{"$ref": "#/responses/missing"}}}}
			case 2:
				paths[key] = O{"parameters": A{O{"$ref": "gone.json#/parameters/p"}}, "get": O{"responses": O{"200": O{"description": "w"}}}}
			case 3:
				paths[key] = O{"$ref": "gone.json#/pathItems/pi"}
			default:
				paths[key] = O{"get": O{"responses": O{"default": O{"$ref": "gone.json#/responses/r"}}}}
			}
			if len(c.Aux) == 0 && !c.Opts.Expand && d.Bool() {
				// every option must leave the outcome an error (the name layer does not matter for that)
				c.Opts.KeepNames = true
				d.Label("wplus:dangling-shared-object-ref+KeepNames")
			}
		case "ref-in-simple-items":
			paths := Obj(root["paths"])
			if paths == nil {
				paths = O{}
				root["paths"] = paths
			}
			ensureDefs(root)["simpleItem"] = O{"type": "string"}
			paths[fmt.Sprintf("/wplus%d", i)] = O{"get": O{
				"parameters": A{O{"name": "q", "in": "query", "type": "array", "items": O{"$ref": "#/definitions/simpleItem"}}},
				"responses":  O{"200": O{"description": "w"}},
			}}
		case "dangling-ref-in-simple-items":
			paths := Obj(root["paths"])
			if paths == nil {
				paths = O{}
				root["paths"] = paths
			}
			bad := O{"$ref": d.Pick([]string{"#/definitions/nowhere", "gone.json#/definitions/x"})}
			if d.Bool() {
				paths[fmt.Sprintf("/wplus%d", i)] = O{"get": O{
					"parameters": A{O{"name": "q", "in": "query", "type": "array", "items": bad}},
					"responses":  O{"200": O{"description": "w"}},
				}}
			} else {
				paths[fmt.Sprintf("/wplus%d", i)] = O{"get": O{"responses": O{"200": O{"description": "w", "headers": O{"X-L": O{"type": "array", "items": bad}}}}}}
			}
		case "whole-document-schema-ref":
			c.Aux["other/whole.json"] = O{"type": "object", "properties": O{"w": O{"type": "string"}}}
			holderPath(root, i, O{"$ref": "other/whole.json"})
		case "bare-ref-cycle":
			defs := ensureDefs(root)
			defs["bareA"] = O{"$ref": "#/definitions/bareB"}
			defs["bareB"] = O{"$ref": "#/definitions/bareA"}
			holderPath(root, i, O{"$ref": "#/definitions/bareA"})
		case "pointer-to-non-schema":
			holderPath(root, i, O{"$ref": "#/info"})
		}
		if applied {
			c.Kinds = append(c.Kinds, kind)
			d.Label("wplus:" + kind)
		}
	}
	c.GenLabels = d.LabelList()
	return c
}
