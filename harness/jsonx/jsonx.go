// Package jsonx holds the generic-JSON plumbing shared by generators and oracles: deterministic
// (ordered) serialisation, JSON-pointer / $ref rendering and parsing, and tree navigation.
// It deliberately shares no code with go-openapi/{analysis,spec,jsonpointer,jsonreference}.
package jsonx

import (
	"bytes"
	"crypto/sha256"
	"encoding/hex"
	"encoding/json"
	"fmt"
	"hash/fnv"
	"net/url"
	"sort"
	"strconv"
	"strings"
)

// J is generic JSON; O is a JSON object.
type (
	J = interface{}
	O = map[string]interface{}
	A = []interface{}
)

// Marshal serialises with sorted keys and without HTML escaping.
func Marshal(v J) []byte {
	var buf bytes.Buffer
	enc := json.NewEncoder(&buf)
	enc.SetEscapeHTML(false)
	if err := enc.Encode(v); err != nil {
		panic(err)
	}
	return bytes.TrimSpace(buf.Bytes())
}

// MarshalPermuted serialises v with the keys of every object ordered by a hash of (seed, key,
// depth): seed 0 is the sorted order, any other seed a fixed pseudo-random permutation. The seed
// is always a rapid-drawn value, so the byte order is a pure function of the generated case.
func MarshalPermuted(v J, seed uint64) []byte {
	if seed == 0 {
		return Marshal(v)
	}
	var buf bytes.Buffer
	writePermuted(&buf, v, seed, 0)
	return buf.Bytes()
}

func writePermuted(buf *bytes.Buffer, v J, seed uint64, depth int) {
	switch x := v.(type) {
	case map[string]interface{}:
		keys := make([]string, 0, len(x))
		for k := range x {
			keys = append(keys, k)
		}
		sort.Strings(keys)
		rank := func(k string) uint64 {
			h := fnv.New64a()
			fmt.Fprintf(h, "%d/%d/%s", seed, depth, k)
			return h.Sum64()
		}
		sort.SliceStable(keys, func(i, j int) bool { return rank(keys[i]) < rank(keys[j]) })
		buf.WriteByte('{')
		for i, k := range keys {
			if i > 0 {
				buf.WriteByte(',')
			}
			buf.Write(Marshal(k))
			buf.WriteByte(':')
			writePermuted(buf, x[k], seed, depth+1)
		}
		buf.WriteByte('}')
	case []interface{}:
		buf.WriteByte('[')
		for i, e := range x {
			if i > 0 {
				buf.WriteByte(',')
			}
			writePermuted(buf, e, seed, depth+1)
		}
		buf.WriteByte(']')
	default:
		buf.Write(Marshal(v))
	}
}

// Parse decodes JSON text to generic JSON (panics on malformed text: callers own the text).
func Parse(b []byte) J {
	var v J
	if err := json.Unmarshal(b, &v); err != nil {
		panic(fmt.Sprintf("jsonx.Parse: %v: %.200s", err, b))
	}
	return v
}

// TryParse decodes JSON text to generic JSON.
func TryParse(b []byte) (J, error) {
	var v J
	err := json.Unmarshal(b, &v)
	return v, err
}

// Clone deep-copies generic JSON.
func Clone(v J) J {
	switch x := v.(type) {
	case map[string]interface{}:
		o := make(O, len(x))
		for k, e := range x {
			o[k] = Clone(e)
		}
		return o
	case []interface{}:
		a := make(A, len(x))
		for i, e := range x {
			a[i] = Clone(e)
		}
		return a
	default:
		return v
	}
}

// Hash is the hex SHA-256 (first 16 hex digits) of the canonical serialisation.
func Hash(v J) string {
	s := sha256.Sum256(Marshal(v))
	return hex.EncodeToString(s[:8])
}

func Obj(v J) O { m, _ := v.(map[string]interface{}); return m }
func Arr(v J) A { a, _ := v.([]interface{}); return a }
func Str(v J) string {
	s, _ := v.(string)
	return s
}

func SortedKeys(m O) []string {
	ks := make([]string, 0, len(m))
	for k := range m {
		ks = append(ks, k)
	}
	sort.Strings(ks)
	return ks
}

// PtrEsc / PtrUnesc implement RFC 6901 token escaping.
func PtrEsc(s string) string {
	return strings.ReplaceAll(strings.ReplaceAll(s, "~", "~0"), "/", "~1")
}

func PtrUnesc(s string) string {
	return strings.ReplaceAll(strings.ReplaceAll(s, "~1", "/"), "~0", "~")
}

// Ptr renders "#/a/b" with RFC 6901 escaping only (the form the analyzer uses for its keys).
func Ptr(tokens []string) string {
	var sb strings.Builder
	sb.WriteString("#")
	for _, t := range tokens {
		sb.WriteString("/")
		sb.WriteString(PtrEsc(t))
	}
	return sb.String()
}

// Frag renders the URI fragment "#/a/b" for pointer tokens: RFC 6901 escaping, then RFC 3986
// percent-encoding of what a fragment cannot carry.
func Frag(tokens ...string) string {
	var sb strings.Builder
	sb.WriteString("#")
	for _, t := range tokens {
		sb.WriteString("/")
		u := url.URL{Fragment: PtrEsc(t)}
		sb.WriteString(strings.TrimPrefix(u.String(), "#"))
	}
	return sb.String()
}

// ParseRef splits a $ref string into its file part and decoded pointer tokens.
func ParseRef(ref string) (file string, tokens []string, err error) {
	u, err := url.Parse(ref)
	if err != nil {
		return "", nil, err
	}
	if (u.Scheme != "" && u.Scheme != "file") || u.Host != "" {
		return "", nil, fmt.Errorf("non-file ref %q", ref)
	}
	file = u.Path
	frag := u.Fragment
	if frag == "" {
		return file, nil, nil
	}
	if !strings.HasPrefix(frag, "/") {
		return "", nil, fmt.Errorf("fragment is not a JSON pointer in %q", ref)
	}
	for _, t := range strings.Split(frag[1:], "/") {
		tokens = append(tokens, PtrUnesc(t))
	}
	return file, tokens, nil
}

// Get walks tokens down a generic JSON tree.
func Get(doc J, tokens []string) (J, error) {
	cur := doc
	for i, t := range tokens {
		switch c := cur.(type) {
		case map[string]interface{}:
			v, ok := c[t]
			if !ok {
				return nil, fmt.Errorf("no key %q at /%s", t, strings.Join(tokens[:i], "/"))
			}
			cur = v
		case []interface{}:
			idx, err := strconv.Atoi(t)
			if err != nil || strconv.Itoa(idx) != t || idx < 0 || idx >= len(c) {
				return nil, fmt.Errorf("bad index %q at /%s", t, strings.Join(tokens[:i], "/"))
			}
			cur = c[idx]
		default:
			return nil, fmt.Errorf("cannot descend into %T with %q", cur, t)
		}
	}
	return cur, nil
}

// Equal is deep equality of generic JSON (numbers compared as decoded float64).
func Equal(a, b J) bool {
	switch x := a.(type) {
	case map[string]interface{}:
		y, ok := b.(map[string]interface{})
		if !ok || len(x) != len(y) {
			return false
		}
		for k, v := range x {
			w, ok := y[k]
			if !ok || !Equal(v, w) {
				return false
			}
		}
		return true
	case []interface{}:
		y, ok := b.([]interface{})
		if !ok || len(x) != len(y) {
			return false
		}
		for i := range x {
			if !Equal(x[i], y[i]) {
				return false
			}
		}
		return true
	default:
		return a == b
	}
}

// Trunc shortens a string for reports.
func Trunc(s string, n int) string {
	if len(s) <= n {
		return s
	}
	return s[:n] + fmt.Sprintf("…(+%d bytes)", len(s)-n)
}
