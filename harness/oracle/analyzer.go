package oracle

import (
	"encoding/json"
	"fmt"
	"sort"
	"strings"

	. "verif/harness/jsonx"
)

// DocIndex is the independent reading of a serialised Swagger document that the analyzer's
// indexes are compared with (C11-C15).
type DocIndex struct {
	Refs      map[string][]string     // kind -> multiset of $ref strings: schema, parameter, response, pathitem, items, all
	Schemas   []string                // RFC 6901 pointer ("#/...") of every schema position
	AllOf     []string                // ... of those with a non-empty allOf
	SchemaAt  map[string]O            // pointer -> schema
	Pat       map[string]map[string]J // category -> pointer -> pattern
	Enum      map[string]map[string]J // category -> pointer -> enum
	Ops       []OpInfo                // every operation
	Coverage  map[string]bool         // owner-kind x keyword cells that occur (evidence)
	RefHolder map[string]bool         // holder keywords of schema $refs that occur
}

type OpInfo struct {
	Method string // upper case
	Path   string
	Op     O
	Item   O
}

var categories = []string{"parameters", "headers", "items", "schemas", "all"}

// IndexDoc walks the document once.
func IndexDoc(doc O) *DocIndex {
	x := &DocIndex{Refs: map[string][]string{}, SchemaAt: map[string]O{}, Pat: map[string]map[string]J{}, Enum: map[string]map[string]J{}, Coverage: map[string]bool{}, RefHolder: map[string]bool{}}
	for _, c := range categories {
		x.Pat[c] = map[string]J{}
		x.Enum[c] = map[string]J{}
	}
	pe := func(cat, owner string, l Loc, o O) {
		p := Ptr(l.Tokens)
		if s, ok := o["pattern"].(string); ok && s != "" {
			x.Pat[cat][p], x.Pat["all"][p] = s, s
			x.Coverage[owner+"/pattern"] = true
		}
		if e, ok := o["enum"].([]interface{}); ok && len(e) > 0 {
			x.Enum[cat][p], x.Enum["all"][p] = e, e
			x.Coverage[owner+"/enum"] = true
		}
	}
	v := &Visitor{
		Ref: func(l Loc, kind, ref string) {
			x.Refs[kind] = append(x.Refs[kind], ref)
			x.Refs["all"] = append(x.Refs["all"], ref)
		},
		Schema: func(l Loc, s O, holder string) {
			p := Ptr(l.Tokens)
			x.Schemas = append(x.Schemas, p)
			x.SchemaAt[p] = s
			if len(Arr(s["allOf"])) > 0 {
				x.AllOf = append(x.AllOf, p)
			}
			if _, ok := s["$ref"]; ok {
				x.RefHolder[l.Tokens[0]+"/"+holder] = true
			}
			pe("schemas", "schema:"+l.Tokens[0], l, s)
		},
		Param:  func(l Loc, p O, where string) { pe("parameters", "param:"+where, l, p) },
		Header: func(l Loc, h O, where string) { pe("headers", "header:"+where, l, h) },
		Items:  func(l Loc, it O, owner string) { pe("items", "items:"+owner, l, it) },
		Operation: func(l Loc, method, pth string, op O) {
			x.Ops = append(x.Ops, OpInfo{Method: strings.ToUpper(method), Path: pth, Op: op})
		},
	}
	WalkSwagger("", doc, v)
	paths := Obj(doc["paths"])
	for i := range x.Ops {
		x.Ops[i].Item = Obj(paths[x.Ops[i].Path])
	}
	return x
}

// Answers indexes the worker's answers by call key.
type Answers map[string]json.RawMessage

func (a Answers) get(key string, into interface{}) error {
	raw, ok := a[key]
	if !ok {
		return fmt.Errorf("HARNESS: no answer for %s", key)
	}
	var probe map[string]interface{}
	if json.Unmarshal(raw, &probe) == nil {
		if p, ok := probe["panic"]; ok && len(probe) == 1 {
			return fmt.Errorf("%s panicked: %v", key, p)
		}
	}
	if err := json.Unmarshal(raw, into); err != nil {
		return fmt.Errorf("HARNESS: answer of %s does not decode: %v: %s", key, err, Trunc(string(raw), 200))
	}
	return nil
}

func sortedCopy(s []string) []string {
	out := append([]string{}, s...)
	sort.Strings(out)
	return out
}

func eqStrings(a, b []string) bool {
	if len(a) != len(b) {
		return false
	}
	for i := range a {
		if a[i] != b[i] {
			return false
		}
	}
	return true
}

func dedupe(s []string) []string {
	seen := map[string]bool{}
	var out []string
	for _, e := range s {
		if e != "" && !seen[e] {
			seen[e] = true
			out = append(out, e)
		}
	}
	return out
}

// CheckC11: reference getters vs the walk, as multisets (AllRefs as a set).
func CheckC11(x *DocIndex, a Answers) error {
	for getter, kind := range map[string]string{
		"AllReferences": "all", "AllDefinitionReferences": "schema", "AllParameterReferences": "parameter",
		"AllResponseReferences": "response", "AllPathItemReferences": "pathitem", "AllItemsReferences": "items",
	} {
		var got []string
		if err := a.get(getter, &got); err != nil {
			return err
		}
		want := sortedCopy(x.Refs[kind])
		if !eqStrings(sortedCopy(got), want) {
			return fmt.Errorf("%s reports %q but the document holds %q at %s positions", getter, sortedCopy(got), want, kind)
		}
	}
	var got []string
	if err := a.get("AllRefs", &got); err != nil {
		return err
	}
	want := sortedCopy(dedupe(x.Refs["all"]))
	if !eqStrings(sortedCopy(got), want) {
		return fmt.Errorf("AllRefs reports %q but the distinct $refs of the document are %q", sortedCopy(got), want)
	}
	return nil
}

type schemaEntry struct {
	Name       string          `json:"name"`
	Ref        string          `json:"ref"`
	TopLevel   bool            `json:"topLevel"`
	Schema     json.RawMessage `json:"schema"`
	Resolved   json.RawMessage `json:"resolved"`
	ResolveErr string          `json:"resolveErr"`
}

// CheckC12: every schema listed exactly once under a pointer that resolves to it.
func CheckC12(doc O, x *DocIndex, a Answers) error {
	var entries []schemaEntry
	if err := a.get("AllDefinitions", &entries); err != nil {
		return err
	}
	var ptrs []string
	for _, e := range entries {
		if e.ResolveErr != "" {
			return fmt.Errorf("SchemaRef %q (name %q) does not resolve against the document: %s", e.Ref, e.Name, e.ResolveErr)
		}
		sch, err1 := TryParse(e.Schema)
		res, err2 := TryParse(e.Resolved)
		if err1 != nil || err2 != nil {
			return fmt.Errorf("HARNESS: undecodable schema entry %q", e.Ref)
		}
		if !Equal(sch, res) {
			return fmt.Errorf("SchemaRef %q resolves to %s but is listed with schema %s", e.Ref, Trunc(string(e.Resolved), 300), Trunc(string(e.Schema), 300))
		}
		file, toks, err := ParseRef(e.Ref)
		if err != nil || file != "" {
			return fmt.Errorf("SchemaRef %q is not a local JSON pointer: %v", e.Ref, err)
		}
		mine, err := Get(doc, toks)
		if err != nil {
			// the library's pointer resolved but ours did not: our resolver is at fault
			return fmt.Errorf("HARNESS: pointer %q resolves for the library but not for the oracle: %v", e.Ref, err)
		}
		if !Equal(mine, sch) {
			return fmt.Errorf("SchemaRef %q designates %s in the serialised document but is listed with schema %s", e.Ref, Trunc(string(Marshal(mine)), 300), Trunc(string(e.Schema), 300))
		}
		p := Ptr(toks)
		ptrs = append(ptrs, p)
		top := len(toks) == 2 && toks[0] == "definitions"
		if e.TopLevel != top {
			return fmt.Errorf("SchemaRef %q has TopLevel=%v", e.Ref, e.TopLevel)
		}
	}
	if got, want := sortedCopy(ptrs), sortedCopy(x.Schemas); !eqStrings(got, want) {
		return fmt.Errorf("AllDefinitions lists %s but the schema positions of the document are %s", diffStrings(got, want), "as stated")
	}
	var allOf []schemaEntry
	if err := a.get("SchemasWithAllOf", &allOf); err != nil {
		return err
	}
	var aptrs []string
	for _, e := range allOf {
		_, toks, err := ParseRef(e.Ref)
		if err != nil {
			return fmt.Errorf("SchemasWithAllOf: bad ref %q", e.Ref)
		}
		aptrs = append(aptrs, Ptr(toks))
	}
	if got, want := sortedCopy(aptrs), sortedCopy(x.AllOf); !eqStrings(got, want) {
		return fmt.Errorf("SchemasWithAllOf lists %s vs schemas with allOf members", diffStrings(got, want))
	}
	return nil
}

func diffStrings(got, want []string) string {
	g, w := map[string]int{}, map[string]int{}
	for _, s := range got {
		g[s]++
	}
	for _, s := range want {
		w[s]++
	}
	var extra, missing []string
	for s, n := range g {
		if n > w[s] {
			extra = append(extra, s)
		}
	}
	for s, n := range w {
		if n > g[s] {
			missing = append(missing, s)
		}
	}
	sort.Strings(extra)
	sort.Strings(missing)
	return fmt.Sprintf("extra/duplicated %q, missing %q", extra, missing)
}

// CheckC13: pattern and enum indexes, exact map equality per category.
func CheckC13(x *DocIndex, a Answers) error {
	getters := map[string]string{"Parameter": "parameters", "Header": "headers", "Items": "items", "Schema": "schemas", "All": "all"}
	for _, g := range []string{"Parameter", "Header", "Items", "Schema", "All"} {
		cat := getters[g]
		var gotP map[string]J
		if err := a.get(g+"Patterns", &gotP); err != nil {
			return err
		}
		if !Equal(J(toObj(gotP)), J(toObj(x.Pat[cat]))) {
			return fmt.Errorf("%sPatterns reports %s but the document declares %s", g, Marshal(toObj(gotP)), Marshal(toObj(x.Pat[cat])))
		}
		var gotE map[string]J
		if err := a.get(g+"Enums", &gotE); err != nil {
			return err
		}
		if !Equal(J(toObj(gotE)), J(toObj(x.Enum[cat]))) {
			return fmt.Errorf("%sEnums reports %s but the document declares %s", g, Marshal(toObj(gotE)), Marshal(toObj(x.Enum[cat])))
		}
	}
	return nil
}

func toObj(m map[string]J) O {
	o := O{}
	for k, v := range m {
		o[k] = v
	}
	return o
}

func strSet(v J) []string {
	seen := map[string]bool{}
	var out []string
	for _, e := range Arr(v) {
		if s, ok := e.(string); ok && !seen[s] {
			seen[s] = true
			out = append(out, s)
		}
	}
	sort.Strings(out)
	return out
}

func keysOf(m map[string]bool) []string {
	var out []string
	for k := range m {
		out = append(out, k)
	}
	sort.Strings(out)
	return out
}

type secReq struct {
	Name   string   `json:"name"`
	Scopes []string `json:"scopes"`
}

// CheckC14: operation lookups and the precedence / union rules.
func CheckC14(doc O, x *DocIndex, a Answers, extraCase map[string]string) error {
	// Operations
	var ops map[string]map[string]J
	if err := a.get("Operations", &ops); err != nil {
		return err
	}
	cnt := 0
	for m, byPath := range ops {
		for range byPath {
			cnt++
		}
		_ = m
	}
	if cnt != len(x.Ops) {
		return fmt.Errorf("Operations() holds %d operations, the document %d", cnt, len(x.Ops))
	}
	idCount := map[string]int{}
	for _, o := range x.Ops {
		if id := Str(o.Op["operationId"]); id != "" {
			idCount[id]++
		}
	}
	var wantIDs, wantMP []string
	reqC, reqP, reqS := map[string]bool{}, map[string]bool{}, map[string]bool{}
	for _, s := range strSet(doc["consumes"]) {
		reqC[s] = true
	}
	for _, s := range strSet(doc["produces"]) {
		reqP[s] = true
	}
	secNames := func(v J) {
		for _, r := range Arr(v) {
			for k := range Obj(r) {
				reqS[k] = true
			}
		}
	}
	secNames(doc["security"])
	secDefs := Obj(doc["securityDefinitions"])
	for _, o := range x.Ops {
		mp := o.Method + " " + o.Path
		wantMP = append(wantMP, mp)
		got, ok := ops[o.Method][o.Path]
		if !ok || !Equal(got, J(o.Op)) {
			return fmt.Errorf("Operations()[%s][%s] = %s, the document has %s", o.Method, o.Path, Trunc(string(Marshal(got)), 300), Trunc(string(Marshal(o.Op)), 300))
		}
		id := Str(o.Op["operationId"])
		if id != "" {
			wantIDs = append(wantIDs, id)
		} else {
			wantIDs = append(wantIDs, mp)
		}
		for _, s := range strSet(o.Op["consumes"]) {
			reqC[s] = true
		}
		for _, s := range strSet(o.Op["produces"]) {
			reqP[s] = true
		}
		secNames(o.Op["security"])
		// lookup by method (any letter case) and path
		for _, meth := range []string{o.Method, extraCase[o.Method]} {
			if meth == "" {
				continue
			}
			var of struct {
				Found bool `json:"found"`
				Op    J    `json:"op"`
			}
			if err := a.get("OperationFor|"+meth+"|"+o.Path, &of); err != nil {
				return err
			}
			if !of.Found || !Equal(of.Op, J(o.Op)) {
				return fmt.Errorf("OperationFor(%q,%q): found=%v op=%s, the document has %s", meth, o.Path, of.Found, Trunc(string(Marshal(of.Op)), 300), Trunc(string(Marshal(o.Op)), 300))
			}
		}
		if id != "" && idCount[id] == 1 {
			var on struct {
				Found  bool   `json:"found"`
				Method string `json:"method"`
				Path   string `json:"path"`
				Op     J      `json:"op"`
			}
			if err := a.get("OperationForName|"+id, &on); err != nil {
				return err
			}
			if !on.Found || on.Method != o.Method || on.Path != o.Path || !Equal(on.Op, J(o.Op)) {
				return fmt.Errorf("OperationForName(%q) = (%s %s found=%v), the document has it at %s", id, on.Method, on.Path, on.Found, mp)
			}
		}
		key := "|" + o.Method + "|" + o.Path
		// consumes / produces precedence
		for _, cp := range []string{"Consumes", "Produces"} {
			field := strings.ToLower(cp)
			want := strSet(o.Op[field])
			if len(want) == 0 {
				want = strSet(doc[field])
			}
			var got []string
			if err := a.get(cp+"For"+key, &got); err != nil {
				return err
			}
			if !eqStrings(sortedCopy(got), want) {
				return fmt.Errorf("%sFor(%s) = %q, expected %q (operation list when non-empty, else the document's)", cp, mp, sortedCopy(got), want)
			}
		}
		// security
		var eff []interface{}
		declared := false
		if s, ok := o.Op["security"]; ok {
			eff, declared = Arr(s), true
		} else if s, ok := doc["security"]; ok {
			eff, declared = Arr(s), true
		}
		var gotReqs [][]secReq
		if err := a.get("SecurityRequirementsFor"+key, &gotReqs); err != nil {
			return err
		}
		if !declared && len(gotReqs) != 0 {
			return fmt.Errorf("SecurityRequirementsFor(%s) = %v although neither the operation nor the document declares security", mp, gotReqs)
		}
		if len(gotReqs) != len(eff) {
			return fmt.Errorf("SecurityRequirementsFor(%s) has %d alternatives, expected %d (%s)", mp, len(gotReqs), len(eff), Marshal(eff))
		}
		wantDefs := map[string]bool{}
		for i, r := range eff {
			rm := Obj(r)
			if len(rm) == 0 {
				if len(gotReqs[i]) != 1 || gotReqs[i][0].Name != "" {
					return fmt.Errorf("SecurityRequirementsFor(%s)[%d] = %v for the empty requirement", mp, i, gotReqs[i])
				}
				continue
			}
			gm, wm := O{}, O{}
			for _, q := range gotReqs[i] {
				sc := A{}
				for _, s := range q.Scopes {
					sc = append(sc, s)
				}
				gm[q.Name] = sc
			}
			for k, v := range rm {
				sc := A{}
				sc = append(sc, Arr(v)...)
				wm[k] = sc
				if _, ok := secDefs[k]; ok {
					wantDefs[k] = true
				}
			}
			if !Equal(J(gm), J(wm)) {
				return fmt.Errorf("SecurityRequirementsFor(%s)[%d] = %s, expected %s", mp, i, Marshal(gm), Marshal(wm))
			}
		}
		var gotDefs map[string]J
		if err := a.get("SecurityDefinitionsFor"+key, &gotDefs); err != nil {
			return err
		}
		if len(gotDefs) != len(wantDefs) {
			return fmt.Errorf("SecurityDefinitionsFor(%s) = %s, expected the definitions %q", mp, Marshal(toObj(gotDefs)), keysOf(wantDefs))
		}
		for k, v := range gotDefs {
			if !wantDefs[k] || !Equal(v, secDefs[k]) {
				return fmt.Errorf("SecurityDefinitionsFor(%s)[%s] = %s, expected %s", mp, k, Marshal(v), Marshal(secDefs[k]))
			}
		}
		var gotPer []map[string]J
		if err := a.get("SecurityDefinitionsForRequirements"+key, &gotPer); err != nil {
			return err
		}
		if len(gotPer) != len(eff) {
			return fmt.Errorf("SecurityDefinitionsForRequirements(%s): %d results for %d requirement lists", mp, len(gotPer), len(eff))
		}
		for i, r := range eff {
			want := O{}
			for k := range Obj(r) {
				if d, ok := secDefs[k]; ok {
					want[k] = d
				}
			}
			if !Equal(J(toObj(gotPer[i])), J(want)) {
				return fmt.Errorf("SecurityDefinitionsForRequirements(%s)[%d] = %s, expected %s", mp, i, Marshal(toObj(gotPer[i])), Marshal(want))
			}
		}
	}
	// lookups by an id in another letter case: found iff that spelling is itself a (unique) id
	for id := range idCount {
		for _, variant := range []string{strings.ToUpper(id), strings.ToLower(id)} {
			raw, asked := a["OperationForName|"+variant]
			if !asked || variant == id {
				continue
			}
			var on struct {
				Found bool `json:"found"`
			}
			if err := a.get("OperationForName|"+variant, &on); err != nil {
				return err
			}
			_ = raw
			if idCount[variant] == 0 && on.Found {
				return fmt.Errorf("OperationForName(%q) found an operation although no operation has that id (only %q exists)", variant, id)
			}
		}
	}
	for getter, want := range map[string][]string{
		"OperationIDs": wantIDs, "OperationMethodPaths": wantMP,
		"RequiredConsumes": keysOf(reqC), "RequiredProduces": keysOf(reqP), "RequiredSecuritySchemes": keysOf(reqS),
	} {
		var got []string
		if err := a.get(getter, &got); err != nil {
			return err
		}
		if !eqStrings(sortedCopy(got), sortedCopy(want)) {
			return fmt.Errorf("%s = %q, expected %q", getter, sortedCopy(got), sortedCopy(want))
		}
	}
	// AllPaths
	var gotPaths map[string]J
	if err := a.get("AllPaths", &gotPaths); err != nil {
		return err
	}
	wantPaths := O{}
	for k, v := range Obj(doc["paths"]) {
		if !strings.HasPrefix(k, "x-") {
			wantPaths[k] = v
		}
	}
	if !Equal(J(toObj(gotPaths)), J(wantPaths)) {
		return fmt.Errorf("AllPaths = %s, the document has %s", Trunc(string(Marshal(toObj(gotPaths))), 400), Trunc(string(Marshal(wantPaths)), 400))
	}
	// misses
	for _, m := range []string{"GET", "POST"} {
		var of struct {
			Found bool `json:"found"`
		}
		if err := a.get("OperationFor|"+m+"|/__no_such_path__", &of); err != nil {
			return err
		}
		if of.Found {
			return fmt.Errorf("OperationFor(%s, missing path) found an operation", m)
		}
	}
	var on struct {
		Found bool `json:"found"`
	}
	if err := a.get("OperationForName|__no_such_operation__", &on); err != nil {
		return err
	}
	if on.Found {
		return fmt.Errorf("OperationForName(unknown id) found an operation")
	}
	return nil
}

// ---- C15 -----------------------------------------------------------------------------------

type paramsAnswer struct {
	Params    map[string]J `json:"params"`
	List      []string     `json:"list"`
	Callbacks []string     `json:"callbacks"`
}

// paramModel applies the documented rule to one list after the other. stop=true: a bad $ref ends
// the list it is in. Returns the effective parameters (serialised, sorted) and the bad refs met.
func paramModel(doc O, lists [][]interface{}, stop bool) (want []string, bad []string) {
	return paramModelScope(doc, lists, stop, false)
}

// paramModelScope: stopAll=true reads "stop" as "give up the whole lookup" (the lists that follow are not
// looked at either), stopAll=false as "give up the list the bad $ref is in". The property says "skip or stop as
// the callback says" and leaves the reach of a stop open: both readings are accepted.
func paramModelScope(doc O, lists [][]interface{}, stop, stopAll bool) (want []string, bad []string) {
	shared := Obj(doc["parameters"])
	type kv struct{ k, v string }
	bag := map[string]string{}
	stopped := false
	for _, list := range lists {
		if stopped && stopAll {
			break
		}
		for _, p := range list {
			pm := Obj(p)
			if r, ok := pm["$ref"].(string); ok {
				file, toks, err := ParseRef(r)
				var target O
				if err == nil && file == "" && len(toks) == 2 && toks[0] == "parameters" {
					target = Obj(shared[toks[1]])
				}
				if target == nil {
					bad = append(bad, r)
					if stop {
						stopped = true
						break
					}
					continue
				}
				pm = target
			}
			bag[fmt.Sprint(pm["in"], "#", pm["name"])] = string(Marshal(pm))
		}
	}
	for _, v := range bag {
		want = append(want, v)
	}
	sort.Strings(want)
	return want, bad
}

func valuesOf(m map[string]J) []string {
	var out []string
	for _, v := range m {
		out = append(out, string(Marshal(v)))
	}
	sort.Strings(out)
	return out
}

func renormalise(list []string) []string {
	var out []string
	for _, s := range list {
		v, err := TryParse([]byte(s))
		if err != nil {
			out = append(out, s)
			continue
		}
		out = append(out, string(Marshal(v)))
	}
	sort.Strings(out)
	return out
}

func hasRefPlaceholder(vals []string) bool {
	for _, v := range vals {
		if p, err := TryParse([]byte(v)); err == nil {
			if _, isRef := Obj(p)["$ref"]; isRef {
				return true
			}
		}
	}
	return false
}

// CheckC15: effective parameters, callback protocol, panic contract, misses.
func CheckC15(doc O, x *DocIndex, a Answers) error {
	paths := Obj(doc["paths"])
	type target struct {
		method, path string
		exists       bool
		lists        [][]interface{}
		id           string
	}
	var targets []target
	pathNames := append(SortedKeys(paths), "/__no_such_path__")
	idCount := map[string]int{}
	for _, o := range x.Ops {
		if id := Str(o.Op["operationId"]); id != "" {
			idCount[id]++
		}
	}
	for _, p := range pathNames {
		if strings.HasPrefix(p, "x-") {
			continue
		}
		pi := Obj(paths[p])
		for _, m := range Methods {
			t := target{method: strings.ToUpper(m), path: p}
			if op := Obj(pi[m]); op != nil {
				t.exists = true
				t.lists = [][]interface{}{Arr(pi["parameters"]), Arr(op["parameters"])}
				if id := Str(op["operationId"]); id != "" && idCount[id] == 1 {
					t.id = id
				}
			}
			targets = append(targets, t)
		}
	}
	for _, t := range targets {
		key := "|" + t.method + "|" + t.path
		what := t.method + " " + t.path
		for _, mode := range []string{"continue", "stop"} {
			var want, bad []string
			if t.exists {
				want, bad = paramModel(doc, t.lists, mode == "stop")
			}
			var got paramsAnswer
			if err := a.get("SafeParamsFor/"+mode+key, &got); err != nil {
				return err
			}
			gv := valuesOf(got.Params)
			if mode == "stop" && t.exists && (!eqStrings(gv, want) || !eqStrings(sortedCopy(got.Callbacks), sortedCopy(bad))) {
				// the other reading of "stop"
				want, bad = paramModelScope(doc, t.lists, true, true)
			}
			if !eqStrings(gv, want) {
				return fmt.Errorf("SafeParamsFor(%s, callback says %s) = %q, expected %q", what, mode, gv, want)
			}
			if !eqStrings(sortedCopy(got.Callbacks), sortedCopy(bad)) {
				return fmt.Errorf("SafeParamsFor(%s, callback says %s): callback invoked for %q, bad $refs met %q", what, mode, got.Callbacks, bad)
			}
			if hasRefPlaceholder(gv) {
				return fmt.Errorf("SafeParamsFor(%s) returned an unresolved $ref placeholder: %q", what, gv)
			}
		}
		var want, bad []string
		if t.exists {
			want, bad = paramModel(doc, t.lists, false)
		}
		raw := a["ParamsFor"+key]
		var probe map[string]J
		_ = json.Unmarshal(raw, &probe)
		_, panicked := probe["panic"]
		if panicked != (len(bad) > 0) {
			return fmt.Errorf("ParamsFor(%s): panicked=%v (%s) but the operation has %d unresolvable parameter $refs", what, panicked, Trunc(string(raw), 200), len(bad))
		}
		if !panicked {
			var got paramsAnswer
			if err := a.get("ParamsFor"+key, &got); err != nil {
				return err
			}
			if gv := valuesOf(got.Params); !eqStrings(gv, want) {
				return fmt.Errorf("ParamsFor(%s) = %q, expected %q", what, gv, want)
			}
		}
		if t.id != "" {
			for _, mode := range []string{"continue", "stop"} {
				want, bad := paramModel(doc, t.lists, mode == "stop")
				var got paramsAnswer
				if err := a.get("SafeParametersFor/"+mode+"|"+t.id, &got); err != nil {
					return err
				}
				if gv := renormalise(got.List); mode == "stop" && (!eqStrings(gv, want) || !eqStrings(sortedCopy(got.Callbacks), sortedCopy(bad))) {
					// the other reading of "stop"
					want, bad = paramModelScope(doc, t.lists, true, true)
				}
				if gv := renormalise(got.List); !eqStrings(gv, want) {
					return fmt.Errorf("SafeParametersFor(%s, callback says %s) = %q, expected %q", t.id, mode, gv, want)
				}
				if !eqStrings(sortedCopy(got.Callbacks), sortedCopy(bad)) {
					return fmt.Errorf("SafeParametersFor(%s, callback says %s): callback invoked for %q, bad $refs met %q", t.id, mode, got.Callbacks, bad)
				}
			}
			want, bad := paramModel(doc, t.lists, false)
			raw := a["ParametersFor|"+t.id]
			var probe map[string]J
			_ = json.Unmarshal(raw, &probe)
			_, panicked := probe["panic"]
			if panicked != (len(bad) > 0) {
				return fmt.Errorf("ParametersFor(%s): panicked=%v but %d unresolvable parameter $refs", t.id, panicked, len(bad))
			}
			if !panicked {
				var got paramsAnswer
				if err := a.get("ParametersFor|"+t.id, &got); err != nil {
					return err
				}
				if gv := renormalise(got.List); !eqStrings(gv, want) {
					return fmt.Errorf("ParametersFor(%s) = %q, expected %q", t.id, gv, want)
				}
			}
		}
	}
	// unknown operation id: empty, no crash
	for _, g := range []string{"ParametersFor", "SafeParametersFor/continue", "SafeParametersFor/stop"} {
		var got paramsAnswer
		if err := a.get(g+"|__no_such_operation__", &got); err != nil {
			return err
		}
		if len(got.List) != 0 || len(got.Callbacks) != 0 {
			return fmt.Errorf("%s(unknown id) = %q", g, got.List)
		}
	}
	return nil
}
