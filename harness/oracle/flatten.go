package oracle

import (
	"fmt"
	"strings"

	. "verif/harness/jsonx"
)

// FlatIn is what the Flatten oracles look at: the bundle as served to the library, the root as
// the spec model serialises it before Flatten, and the serialised root after Flatten.
type FlatIn struct {
	Docs         map[string]O // absolute path -> document (the root entry is the generated root)
	RootPath     string
	Before       O
	After        O
	RemoveUnused bool
}

func (in *FlatIn) worlds() (*World, *World) {
	da, db := map[string]O{}, map[string]O{}
	for p, d := range in.Docs {
		da[p], db[p] = d, d
	}
	da[in.RootPath] = in.Before
	db[in.RootPath] = in.After
	return &World{Docs: da}, &World{Docs: db}
}

// ReachableDefs returns the root definitions reachable from the "paths" section of doc by
// following $refs (through parameters, responses and other definitions of the same world).
func ReachableDefs(w *World, rootPath string, doc O) map[string]bool {
	reach := map[string]bool{}
	seen := map[string]bool{}
	var visit func(l Loc, v J)
	visit = func(l Loc, v J) {
		if r, ok := RefOf(v); ok {
			tl, tv, err := w.Resolve(l, r)
			if err != nil {
				return
			}
			if tl.Doc == rootPath && len(tl.Tokens) >= 2 && tl.Tokens[0] == "definitions" {
				reach[tl.Tokens[1]] = true
			}
			k := tl.String()
			if seen[k] {
				return
			}
			seen[k] = true
			visit(tl, tv)
			return
		}
		switch x := v.(type) {
		case map[string]interface{}:
			for _, k := range SortedKeys(x) {
				visit(l.Child(k), x[k])
			}
		case []interface{}:
			for i, c := range x {
				visit(l.Child(fmt.Sprint(i)), c)
			}
		}
	}
	visit(Loc{Doc: rootPath, Tokens: []string{"paths"}}, doc["paths"])
	return reach
}

// CheckC01: the rewritten document is bisimilar to the input bundle.
func CheckC01(in *FlatIn) error {
	A, B := in.worlds()
	rp := in.RootPath
	beforeDefs := Obj(in.Before["definitions"])
	bs := &Bisim{A: A, B: B}
	bs.IgnoreB = func(lb Loc, key string) bool {
		if key != "x-go-gen-location" || lb.Doc != rp || len(lb.Tokens) != 2 || lb.Tokens[0] != "definitions" {
			return false
		}
		_, existed := beforeDefs[lb.Tokens[1]]
		return !existed
	}
	for _, k := range SortedKeys(in.Before) {
		va := in.Before[k]
		vb, ok := in.After[k]
		la, lb := Loc{rp, []string{k}}, Loc{rp, []string{k}}
		switch k {
		case "definitions":
			ad := Obj(vb)
			for _, n := range SortedKeys(Obj(va)) {
				y, ok := ad[n]
				if !ok {
					if in.RemoveUnused {
						// legitimately removed iff nothing refers to it any more: a $ref that still
						// does would dangle, which the bisimulation of the other sections reports
						continue
					}
					return fmt.Errorf("definition %q vanished", n)
				}
				if err := bs.Eq(la.Child(n), Obj(va)[n], lb.Child(n), y); err != nil {
					return fmt.Errorf("definition %q changed meaning: %v", n, err)
				}
			}
		case "parameters", "responses":
			if in.RemoveUnused {
				continue
			}
			fallthrough
		default:
			if !ok {
				if m, isObj := va.(map[string]interface{}); isObj && len(m) == 0 {
					continue
				}
				return fmt.Errorf("top-level %q vanished", k)
			}
			if err := bs.Eq(la, va, lb, vb); err != nil {
				return fmt.Errorf("%s: %v", k, err)
			}
		}
	}
	for _, k := range SortedKeys(in.After) {
		if _, ok := in.Before[k]; !ok && k != "definitions" {
			return fmt.Errorf("new top-level key %q", k)
		}
	}
	// x-go-gen-location may only be added to definitions that did not exist before: covered by IgnoreB
	// for compared definitions; new definitions are unconstrained besides being reachable through refs.
	return nil
}

// CanonicalLocalRef tells whether ref has the exact form '#/definitions/<name>' and returns the name.
func CanonicalLocalRef(ref string) (string, bool) {
	const pfx = "#/definitions/"
	if !strings.HasPrefix(ref, pfx) || strings.Contains(ref[len(pfx):], "/") {
		return "", false
	}
	file, toks, err := ParseRef(ref)
	if err != nil || file != "" || len(toks) != 2 || toks[0] != "definitions" {
		return "", false
	}
	return toks[1], true
}

// CheckC02: no $ref outside schemas; every schema $ref is '#/definitions/<existing name>'.
func CheckC02(rootPath string, after O) error {
	defs := Obj(after["definitions"])
	var err error
	WalkSwagger(rootPath, after, &Visitor{Ref: func(l Loc, kind, ref string) {
		if err != nil {
			return
		}
		if kind != "schema" {
			err = fmt.Errorf("%s $ref %q left at %s", kind, ref, l)
			return
		}
		name, ok := CanonicalLocalRef(ref)
		if !ok {
			err = fmt.Errorf("non-canonical $ref %q at %s", ref, l)
			return
		}
		if _, ok := defs[name]; !ok {
			err = fmt.Errorf("dangling $ref %q at %s", ref, l)
		}
	}})
	return err
}

// IsComplex is the statement's rule: object with properties, allOf composition, or tuple.
func IsComplex(s O) bool {
	if len(Obj(s["properties"])) > 0 || len(Arr(s["allOf"])) > 0 {
		return true
	}
	if its, ok := s["items"].([]interface{}); ok && len(its) > 0 {
		return true
	}
	return false
}

// CheckC03: after a full flatten no complex schema is inline; created names are unique up to case.
func CheckC03(rootPath string, before, after O) error {
	var err error
	WalkSwagger(rootPath, after, &Visitor{Schema: func(l Loc, s O, holder string) {
		if err != nil || (len(l.Tokens) == 2 && l.Tokens[0] == "definitions") {
			return
		}
		if IsComplex(s) {
			err = fmt.Errorf("complex schema left inline at %s: %s", l, Trunc(string(Marshal(s)), 300))
		}
	}})
	if err != nil {
		return err
	}
	bd, ad := Obj(before["definitions"]), Obj(after["definitions"])
	names := SortedKeys(ad)
	for i, n := range names {
		for _, m := range names[i+1:] {
			_, e1 := bd[n]
			_, e2 := bd[m]
			if strings.EqualFold(n, m) && !(e1 && e2) {
				return fmt.Errorf("definition names %q and %q are equal up to letter case", n, m)
			}
		}
	}
	// a created name must not fold onto a pre-existing name, even one that was removed afterwards
	for _, n := range names {
		if _, existed := bd[n]; existed {
			continue
		}
		for _, m := range SortedKeys(bd) {
			if strings.EqualFold(n, m) {
				return fmt.Errorf("created definition name %q equals pre-existing name %q up to letter case", n, m)
			}
		}
	}
	return nil
}

// BundleAcyclic decides whether the $ref graph of the whole bundle has no cycle.
func BundleAcyclic(docs map[string]O) (acyclic bool, err error) {
	w := &World{Docs: docs}
	state := map[string]int{} // 0 unseen, 1 on stack, 2 done
	cyc := false
	var visitVal func(l Loc, v J)
	var visitTarget func(l Loc, v J)
	visitTarget = func(l Loc, v J) {
		k := l.String()
		switch state[k] {
		case 1:
			cyc = true
			return
		case 2:
			return
		}
		state[k] = 1
		visitVal(l, v)
		state[k] = 2
	}
	visitVal = func(l Loc, v J) {
		if cyc || err != nil {
			return
		}
		if r, ok := RefOf(v); ok {
			tl, tv, e := w.Resolve(l, r)
			if e != nil {
				err = e
				return
			}
			visitTarget(tl, tv)
			return
		}
		switch x := v.(type) {
		case map[string]interface{}:
			for _, k := range SortedKeys(x) {
				visitVal(l.Child(k), x[k])
			}
		case []interface{}:
			for i, c := range x {
				visitVal(l.Child(fmt.Sprint(i)), c)
			}
		}
	}
	paths := make([]string, 0, len(docs))
	for p := range docs {
		paths = append(paths, p)
	}
	sortStrings(paths)
	for _, p := range paths {
		visitTarget(Loc{Doc: p}, docs[p])
	}
	return !cyc, err
}

// CheckC05Refs: every remaining $ref targets an existing top-level local definition; returns their number.
func CheckC05Refs(rootPath string, after O) (int, error) {
	defs := Obj(after["definitions"])
	n := 0
	var err error
	WalkSwagger(rootPath, after, &Visitor{Ref: func(l Loc, kind, ref string) {
		n++
		if err != nil {
			return
		}
		name, ok := CanonicalLocalRef(ref)
		if !ok || kind != "schema" {
			err = fmt.Errorf("residual %s $ref %q at %s is not a local definition ref", kind, ref, l)
			return
		}
		if _, ok := defs[name]; !ok {
			err = fmt.Errorf("residual $ref %q at %s dangles", ref, l)
		}
	}})
	return n, err
}

// CheckC06: shared sections empty, every definition referenced, nothing dangling.
func CheckC06(rootPath string, after O) error {
	if len(Obj(after["parameters"])) > 0 {
		return fmt.Errorf("shared parameters remain: %v", SortedKeys(Obj(after["parameters"])))
	}
	if len(Obj(after["responses"])) > 0 {
		return fmt.Errorf("shared responses remain: %v", SortedKeys(Obj(after["responses"])))
	}
	used := map[string]bool{}
	defs := Obj(after["definitions"])
	var err error
	WalkSwagger(rootPath, after, &Visitor{Ref: func(l Loc, kind, ref string) {
		if err != nil {
			return
		}
		file, toks, e := ParseRef(ref)
		if e != nil {
			err = fmt.Errorf("unparsable $ref %q at %s", ref, l)
			return
		}
		if file != "" {
			return // not a C06 matter (C02 / C05)
		}
		if _, e := Get(after, toks); e != nil {
			err = fmt.Errorf("dangling $ref %q at %s: %v", ref, l, e)
			return
		}
		if len(toks) >= 2 && toks[0] == "definitions" {
			used[toks[1]] = true
		}
	}})
	if err != nil {
		return err
	}
	for _, n := range SortedKeys(defs) {
		if !used[n] {
			return fmt.Errorf("definition %q remains although no $ref in the document refers to it", n)
		}
	}
	return nil
}

func sortStrings(s []string) {
	for i := 1; i < len(s); i++ {
		for j := i; j > 0 && s[j] < s[j-1]; j-- {
			s[j], s[j-1] = s[j-1], s[j]
		}
	}
}
