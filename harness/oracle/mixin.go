package oracle

import (
	"fmt"
	"strings"

	. "verif/harness/jsonx"
)

func isExt(k string) bool { return strings.HasPrefix(k, "x-") }

// MixinModel is the executable reading of the documented Mixin rules (C17/C18) on generic JSON:
// it returns the expected merged primary and the expected number of collision warnings.
// Inputs must be in the spec model's serialisation normal form.
func MixinModel(primary O, mixins []O) (O, int) {
	p := Obj(Clone(primary))
	coll := 0
	mergeExt := func(dst, src O) {
		for _, k := range SortedKeys(src) {
			if !isExt(k) {
				continue
			}
			if _, ok := dst[k]; ok {
				coll++
				continue
			}
			dst[k] = src[k]
		}
	}
	fill := func(dst, src O, keys ...string) {
		for _, k := range keys {
			if s, _ := dst[k].(string); s == "" {
				if v, ok := src[k]; ok {
					dst[k] = v
				}
			}
		}
	}
	seen := map[string]bool{}
	for _, pp := range SortedKeys(Obj(p["paths"])) {
		for _, m := range Methods {
			if op := Obj(Obj(Obj(p["paths"])[pp])[m]); op != nil {
				if id, _ := op["operationId"].(string); id != "" {
					seen[id] = true
				}
			}
		}
	}
	for i, m := range mixins {
		m = Obj(Clone(m))
		mergeExt(p, m)
		fill(p, m, "host", "basePath")
		if p["info"] == nil {
			if m["info"] != nil {
				p["info"] = m["info"]
			}
		} else if mi := Obj(m["info"]); mi != nil {
			pi := Obj(p["info"])
			mergeExt(pi, mi)
			fill(pi, mi, "description", "title", "termsOfService", "version")
			for _, part := range []string{"contact", "license"} {
				if pi[part] == nil {
					if mi[part] != nil {
						pi[part] = mi[part]
					}
				} else if mp := Obj(mi[part]); mp != nil {
					mergeExt(Obj(pi[part]), mp)
					fill(Obj(pi[part]), mp, "name", "url", "email")
				}
			}
		}
		if p["externalDocs"] == nil {
			if m["externalDocs"] != nil {
				p["externalDocs"] = m["externalDocs"]
			}
		} else if me := Obj(m["externalDocs"]); me != nil {
			fill(Obj(p["externalDocs"]), me, "description", "url")
		}
		for _, key := range []string{"consumes", "produces", "schemes"} {
			for _, v := range Arr(m[key]) {
				found := false
				for _, w := range Arr(p[key]) {
					if v == w {
						found = true
					}
				}
				if !found {
					p[key] = append(Arr(p[key]), v)
				}
			}
		}
		for _, v := range Arr(m["tags"]) {
			found := false
			for _, w := range Arr(p["tags"]) {
				if Obj(v)["name"] == Obj(w)["name"] {
					found = true
				}
			}
			if found {
				coll++
			} else {
				p["tags"] = append(Arr(p["tags"]), v)
			}
		}
		for _, v := range Arr(m["security"]) {
			found := false
			for _, w := range Arr(p["security"]) {
				if Equal(v, w) {
					found = true
				}
			}
			if found {
				coll++
			} else {
				p["security"] = append(Arr(p["security"]), v)
			}
		}
		for _, key := range []string{"securityDefinitions", "definitions", "parameters", "responses", "paths"} {
			mm := Obj(m[key])
			for _, k := range SortedKeys(mm) {
				if key == "paths" && isExt(k) {
					continue
				}
				if p[key] == nil {
					p[key] = O{}
				}
				if _, ok := Obj(p[key])[k]; ok {
					coll++
					continue
				}
				v := mm[k]
				if key == "paths" {
					for _, meth := range Methods {
						if op := Obj(Obj(v)[meth]); op != nil {
							id, _ := op["operationId"].(string)
							if id == "" {
								continue
							}
							if seen[id] {
								id = fmt.Sprintf("%sMixin%d", id, i)
								op["operationId"] = id
							}
							seen[id] = true
						}
					}
				}
				Obj(p[key])[k] = v
			}
		}
	}
	return p, coll
}

// NormTop drops empty containers at the top level (empty container == absent in the normal form).
func NormTop(d O) O {
	for _, k := range []string{"paths", "definitions", "parameters", "responses", "securityDefinitions", "security", "consumes", "produces", "schemes", "tags"} {
		switch v := d[k].(type) {
		case map[string]interface{}:
			if len(v) == 0 {
				delete(d, k)
			}
		case []interface{}:
			if len(v) == 0 {
				delete(d, k)
			}
		case nil:
			delete(d, k)
		}
	}
	return d
}

// OperationIDs lists (path, method, id) of a document, ids possibly empty.
func OperationIDs(doc O) (out [][3]string) {
	paths := Obj(doc["paths"])
	for _, p := range SortedKeys(paths) {
		for _, m := range Methods {
			if op := Obj(Obj(paths[p])[m]); op != nil {
				out = append(out, [3]string{p, m, Str(op["operationId"])})
			}
		}
	}
	return out
}

// FixerModel: "(empty)" exactly at non-$ref responses without description.
func FixerModel(doc O) O {
	d := Obj(Clone(doc))
	fix := func(r J) {
		ro := Obj(r)
		if ro == nil {
			return
		}
		if _, isRef := ro["$ref"]; isRef {
			return
		}
		if s, _ := ro["description"].(string); s == "" {
			ro["description"] = "(empty)"
		}
	}
	for _, r := range Obj(d["responses"]) {
		fix(r)
	}
	for p, pi := range Obj(d["paths"]) {
		if isExt(p) {
			continue
		}
		for _, m := range Methods {
			op := Obj(Obj(pi)[m])
			if op == nil {
				continue
			}
			for code, r := range Obj(op["responses"]) {
				if isExt(code) {
					continue
				}
				fix(r)
			}
		}
	}
	return d
}
