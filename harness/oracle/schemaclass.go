package oracle

import (
	"fmt"

	. "verif/harness/jsonx"
)

// SchemaKind classifies a generated schema syntactically, by the documented vocabulary.
func SchemaKind(s O) string {
	switch {
	case s["$ref"] != nil:
		return "ref"
	case len(Obj(s["properties"])) > 0:
		return "object"
	case len(Arr(s["allOf"])) > 0:
		return "allof"
	}
	if _, isTuple := s["items"].([]interface{}); isTuple {
		return "tuple"
	}
	if Str(s["type"]) == "array" {
		return "array"
	}
	if ap, ok := s["additionalProperties"]; ok && (ap == true || Obj(ap) != nil) {
		return "map"
	}
	switch Str(s["type"]) {
	case "string", "integer", "number", "boolean":
		return "prim"
	}
	return "emptyobj"
}

// simpleByRule: the documented notion of a simple schema (primitive, empty object, array of
// simple, map of simple), followed through $refs. Only called on acyclic inputs.
func simpleByRule(s O, defs O, depth int) bool {
	if depth > 64 {
		return false
	}
	switch SchemaKind(s) {
	case "ref":
		_, toks, err := ParseRef(Str(s["$ref"]))
		if err != nil || len(toks) != 2 {
			return false
		}
		return simpleByRule(Obj(defs[toks[1]]), defs, depth+1)
	case "prim", "emptyobj":
		return true
	case "array":
		it := Obj(s["items"])
		if it == nil {
			return true
		}
		return simpleByRule(it, defs, depth+1)
	case "map":
		if s["additionalProperties"] == true {
			return true
		}
		return simpleByRule(Obj(s["additionalProperties"]), defs, depth+1)
	}
	return false
}

// derefKind follows $refs to the kind of the schema finally designated.
func derefSchema(s O, defs O) O {
	for i := 0; i < 64 && s["$ref"] != nil; i++ {
		_, toks, err := ParseRef(Str(s["$ref"]))
		if err != nil || len(toks) != 2 {
			return s
		}
		s = Obj(defs[toks[1]])
	}
	return s
}

// CheckCoherence: the invariants the statement lists over the exported flags.
func CheckCoherence(f map[string]bool) error {
	switch {
	case f["IsSimpleSchema"] != (f["IsKnownType"] || f["IsSimpleArray"] || f["IsSimpleMap"]):
		return fmt.Errorf("IsSimpleSchema != IsKnownType || IsSimpleArray || IsSimpleMap")
	case f["IsSimpleArray"] && !f["IsArray"]:
		return fmt.Errorf("IsSimpleArray without IsArray")
	case f["IsSimpleMap"] && !f["IsMap"]:
		return fmt.Errorf("IsSimpleMap without IsMap")
	case f["IsMap"] && f["IsExtendedObject"]:
		return fmt.Errorf("IsMap and IsExtendedObject")
	case f["IsTuple"] && f["IsTupleWithExtra"]:
		return fmt.Errorf("IsTuple and IsTupleWithExtra")
	case f["IsArray"] && (f["IsTuple"] || f["IsTupleWithExtra"]):
		return fmt.Errorf("IsArray and tuple")
	}
	return nil
}

// CheckRules: agreement with the documented rules for a non-recursive schema.
func CheckRules(s O, defs O, f map[string]bool) error {
	t := derefSchema(s, defs)
	kind := SchemaKind(t)
	complex := !f["IsSimpleSchema"] && !f["IsArray"] && !f["IsMap"]
	switch kind {
	case "object", "allof", "tuple":
		if !complex {
			return fmt.Errorf("a schema of kind %s must be complex (not simple, not array, not map)", kind)
		}
		if kind == "tuple" {
			_, hasExtra := t["additionalItems"]
			extra := hasExtra && (t["additionalItems"] == true || Obj(t["additionalItems"]) != nil)
			if f["IsTupleWithExtra"] != extra || f["IsTuple"] != !extra {
				return fmt.Errorf("tuple flags: IsTuple=%v IsTupleWithExtra=%v for additionalItems=%v", f["IsTuple"], f["IsTupleWithExtra"], extra)
			}
		}
	case "prim", "emptyobj":
		if complex || !f["IsSimpleSchema"] || !f["IsKnownType"] {
			return fmt.Errorf("a %s must be a known type and simple", kind)
		}
	case "array":
		if complex || !f["IsArray"] {
			return fmt.Errorf("an array must be classified IsArray and not complex")
		}
		if want := simpleByRule(t, defs, 0); f["IsSimpleArray"] != want {
			return fmt.Errorf("IsSimpleArray=%v but its items are simple=%v by the documented rules", f["IsSimpleArray"], want)
		}
	case "map":
		if complex || !f["IsMap"] {
			return fmt.Errorf("a map must be classified IsMap and not complex")
		}
		if want := simpleByRule(t, defs, 0); f["IsSimpleMap"] != want {
			return fmt.Errorf("IsSimpleMap=%v but its values are simple=%v by the documented rules", f["IsSimpleMap"], want)
		}
	}
	return nil
}
