package oracle

import (
	"fmt"
	"strings"

	. "verif/harness/jsonx"
)

// Methods are the seven HTTP methods of a Swagger 2.0 path item, lower case.
var Methods = []string{"get", "put", "post", "delete", "options", "head", "patch"}

// Visitor receives every position of a Swagger 2.0 document that the walker knows about.
// All callbacks are optional. Locations carry decoded tokens.
type Visitor struct {
	// Ref: every "$ref" with the kind of its holder: schema | parameter | response | pathitem | items.
	Ref func(l Loc, kind, ref string)
	// Schema: every schema position (definition bodies, nested and inline schemas). holder is the
	// keyword through which the schema hangs from its parent ("definitions" for a top-level
	// definition, "schema" for parameter/response schemas, else properties, items, allOf, ...).
	Schema func(l Loc, s O, holder string)
	// Param: every parameter object; where is shared | path | operation.
	Param func(l Loc, p O, where string)
	// Header: every response header; where is shared | default | code.
	Header func(l Loc, h O, where string)
	// Items: every simple-schema items object; owner is parameter | header.
	Items func(l Loc, it O, owner string)
	// Response: every response object; where is shared | default | code.
	Response func(l Loc, r O, where string)
	// Operation: every operation.
	Operation func(l Loc, method, pth string, op O)
	// PathItem: every path item.
	PathItem func(l Loc, pth string, pi O)
}

func (v *Visitor) ref(l Loc, kind string, x J) bool {
	if r, ok := RefOf(x); ok {
		if v.Ref != nil {
			v.Ref(l, kind, r)
		}
		return true
	}
	return false
}

// WalkSwagger walks a root document.
func WalkSwagger(doc string, root O, v *Visitor) {
	l := Loc{Doc: doc}
	defs := Obj(root["definitions"])
	for _, name := range SortedKeys(defs) {
		v.WalkSchema(l.Child("definitions", name), defs[name], "definitions")
	}
	params := Obj(root["parameters"])
	for _, name := range SortedKeys(params) {
		v.walkParam(l.Child("parameters", name), params[name], "shared")
	}
	resps := Obj(root["responses"])
	for _, name := range SortedKeys(resps) {
		v.walkResponse(l.Child("responses", name), resps[name], "shared")
	}
	paths := Obj(root["paths"])
	for _, p := range SortedKeys(paths) {
		if strings.HasPrefix(p, "x-") {
			continue
		}
		v.walkPathItem(l.Child("paths", p), p, paths[p])
	}
}

func (v *Visitor) walkPathItem(l Loc, pth string, x J) {
	pi := Obj(x)
	if pi == nil {
		return
	}
	if v.PathItem != nil {
		v.PathItem(l, pth, pi)
	}
	v.ref(l, "pathitem", x)
	for i, p := range Arr(pi["parameters"]) {
		v.walkParam(l.Child("parameters", fmt.Sprint(i)), p, "path")
	}
	for _, m := range Methods {
		op := Obj(pi[m])
		if op == nil {
			continue
		}
		lo := l.Child(m)
		if v.Operation != nil {
			v.Operation(lo, m, pth, op)
		}
		for i, p := range Arr(op["parameters"]) {
			v.walkParam(lo.Child("parameters", fmt.Sprint(i)), p, "operation")
		}
		rs := Obj(op["responses"])
		for _, code := range SortedKeys(rs) {
			if strings.HasPrefix(code, "x-") {
				continue
			}
			where := "code"
			if code == "default" {
				where = "default"
			}
			v.walkResponse(lo.Child("responses", code), rs[code], where)
		}
	}
}

func (v *Visitor) walkParam(l Loc, x J, where string) {
	p := Obj(x)
	if p == nil {
		return
	}
	if v.Param != nil {
		v.Param(l, p, where)
	}
	v.ref(l, "parameter", x)
	if s, ok := p["schema"]; ok {
		v.WalkSchema(l.Child("schema"), s, "schema")
	}
	v.walkItems(l.Child("items"), p["items"], "parameter")
}

func (v *Visitor) walkItems(l Loc, x J, owner string) {
	it := Obj(x)
	if it == nil {
		return
	}
	if v.Items != nil {
		v.Items(l, it, owner)
	}
	v.ref(l, "items", x)
	v.walkItems(l.Child("items"), it["items"], owner)
}

func (v *Visitor) walkResponse(l Loc, x J, where string) {
	r := Obj(x)
	if r == nil {
		return
	}
	if v.Response != nil {
		v.Response(l, r, where)
	}
	v.ref(l, "response", x)
	if s, ok := r["schema"]; ok {
		v.WalkSchema(l.Child("schema"), s, "schema")
	}
	hs := Obj(r["headers"])
	for _, h := range SortedKeys(hs) {
		hd := Obj(hs[h])
		if hd == nil {
			continue
		}
		lh := l.Child("headers", h)
		if v.Header != nil {
			v.Header(lh, hd, where)
		}
		v.walkItems(lh.Child("items"), hd["items"], "header")
	}
}

// WalkSchema walks a schema and all schema-bearing keywords below it.
func (v *Visitor) WalkSchema(l Loc, x J, holder string) {
	s := Obj(x)
	if s == nil {
		return
	}
	if v.Schema != nil {
		v.Schema(l, s, holder)
	}
	v.ref(l, "schema", x)
	for _, kw := range []string{"properties", "patternProperties", "definitions"} {
		m := Obj(s[kw])
		for _, k := range SortedKeys(m) {
			v.WalkSchema(l.Child(kw, k), m[k], kw)
		}
	}
	for _, kw := range []string{"allOf", "anyOf", "oneOf"} {
		for i, e := range Arr(s[kw]) {
			v.WalkSchema(l.Child(kw, fmt.Sprint(i)), e, kw)
		}
	}
	for _, kw := range []string{"not", "additionalProperties", "additionalItems"} {
		v.WalkSchema(l.Child(kw), s[kw], kw)
	}
	switch it := s["items"].(type) {
	case map[string]interface{}:
		v.WalkSchema(l.Child("items"), it, "items")
	case []interface{}:
		for i, e := range it {
			v.WalkSchema(l.Child("items", fmt.Sprint(i)), e, "items[]")
		}
	}
}
