// Package oracle holds the independent oracles: a generic-JSON $ref resolver, the coinductive
// bisimulation used for "means the same", a Swagger 2.0 position walker and the reference models.
// Nothing here calls go-openapi/analysis, spec's resolver or jsonpointer.
package oracle

import (
	"fmt"
	"path"

	. "verif/harness/jsonx"
)

// Loc is a location in a set of documents.
type Loc struct {
	Doc    string
	Tokens []string
}

func (l Loc) String() string { return l.Doc + Frag(l.Tokens...) }

func (l Loc) Child(ts ...string) Loc {
	n := make([]string, len(l.Tokens)+len(ts))
	copy(n, l.Tokens)
	copy(n[len(l.Tokens):], ts)
	return Loc{l.Doc, n}
}

// World is a set of documents (absolute slash path -> parsed JSON) in which $refs are resolved.
type World struct {
	Docs map[string]O
}

func RefOf(v J) (string, bool) {
	m, ok := v.(map[string]interface{})
	if !ok {
		return "", false
	}
	r, ok := m["$ref"].(string)
	return r, ok
}

// Resolve performs one $ref hop from a location.
func (w *World) Resolve(from Loc, ref string) (Loc, J, error) {
	file, tokens, err := ParseRef(ref)
	if err != nil {
		return Loc{}, nil, err
	}
	doc := from.Doc
	if file != "" {
		if path.IsAbs(file) {
			doc = path.Clean(file)
		} else {
			doc = path.Join(path.Dir(from.Doc), file)
		}
	}
	d, ok := w.Docs[doc]
	if !ok {
		return Loc{}, nil, fmt.Errorf("ref %q from %s: no document %s", ref, from, doc)
	}
	v, err := Get(d, tokens)
	if err != nil {
		return Loc{}, nil, fmt.Errorf("ref %q from %s: %v", ref, from, err)
	}
	return Loc{doc, tokens}, v, nil
}

// Deref follows $ref chains (bounded).
func (w *World) Deref(l Loc, v J) (Loc, J, error) {
	for i := 0; ; i++ {
		r, ok := RefOf(v)
		if !ok {
			return l, v, nil
		}
		if i > 64 {
			return l, nil, fmt.Errorf("ref chain too long / cyclic at %s", l)
		}
		var err error
		l, v, err = w.Resolve(l, r)
		if err != nil {
			return l, nil, err
		}
	}
}

// Bisim checks equality of the $ref-unfolded trees of a value in world A and a value in world B.
// Every compared pair of object locations is memoised, which makes the check a greatest fixpoint:
// it terminates on finite documents and equates recursive schemas iff their unfoldings are equal.
type Bisim struct {
	A, B *World
	// IgnoreB tells which extra keys on the B side are tolerated.
	IgnoreB func(lb Loc, key string) bool
	seen    map[string]bool
	Steps   int
}

func (s *Bisim) Eq(la Loc, va J, lb Loc, vb J) error {
	if s.seen == nil {
		s.seen = map[string]bool{}
	}
	la0, lb0 := la, lb
	var err error
	if la, va, err = s.A.Deref(la, va); err != nil {
		return fmt.Errorf("before-side does not resolve: %v", err)
	}
	if lb, vb, err = s.B.Deref(lb, vb); err != nil {
		return fmt.Errorf("after-side dangling: %v", err)
	}
	s.Steps++
	switch a := va.(type) {
	case map[string]interface{}:
		b, ok := vb.(map[string]interface{})
		if !ok {
			return fmt.Errorf("%s (via %s) is an object but %s (via %s) is %T", la, la0, lb, lb0, vb)
		}
		key := la.String() + " <=> " + lb.String()
		if s.seen[key] {
			return nil
		}
		s.seen[key] = true
		for _, k := range SortedKeys(a) {
			y, ok := b[k]
			if !ok {
				return fmt.Errorf("key %q of %s (via %s) is missing at %s (via %s)", k, la, la0, lb, lb0)
			}
			if err := s.Eq(la.Child(k), a[k], lb.Child(k), y); err != nil {
				return err
			}
		}
		for _, k := range SortedKeys(b) {
			if _, ok := a[k]; !ok {
				if s.IgnoreB != nil && s.IgnoreB(lb, k) {
					continue
				}
				return fmt.Errorf("extra key %q at %s (via %s), absent from %s (via %s)", k, lb, lb0, la, la0)
			}
		}
		return nil
	case []interface{}:
		b, ok := vb.([]interface{})
		if !ok || len(a) != len(b) {
			return fmt.Errorf("%s (via %s): array differs from %s (via %s): %s vs %s", la, la0, lb, lb0, Trunc(string(Marshal(va)), 200), Trunc(string(Marshal(vb)), 200))
		}
		for i := range a {
			t := fmt.Sprint(i)
			if err := s.Eq(la.Child(t), a[i], lb.Child(t), b[i]); err != nil {
				return err
			}
		}
		return nil
	default:
		if !Equal(va, vb) {
			return fmt.Errorf("%s (via %s) = %s but %s (via %s) = %s", la, la0, Marshal(va), lb, lb0, Trunc(string(Marshal(vb)), 200))
		}
		return nil
	}
}
