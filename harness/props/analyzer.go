package props

import (
	"strings"

	"verif/harness/gen"
	. "verif/harness/jsonx"
	"verif/harness/oracle"
	"verif/harness/wproto"
)

func mixedCase(m string) string {
	l := strings.ToLower(m)
	return strings.ToUpper(l[:1]) + l[1:2] + strings.ToUpper(l[2:3]) + l[3:]
}

// runAnalyze loads the document in the worker, builds the analyzer and collects the answers of
// every enumerated query (plus lookups with other letter cases of the method).
func runAnalyze(c *gen.APICase) (doc O, ans oracle.Answers, abnormal string, harness string) {
	var extra []wproto.Call
	for p, pi := range Obj(c.Doc["paths"]) {
		for _, m := range oracle.Methods {
			if Obj(Obj(pi)[m]) != nil {
				extra = append(extra, wproto.Call{M: "OperationFor", A: []string{m, p}}, wproto.Call{M: "OperationFor", A: []string{mixedCase(m), p}})
			}
		}
	}
	// lookups by id with another letter case of an existing id (must miss unless that is an id too)
	for _, t := range oracle.OperationIDs(c.Doc) {
		if t[2] != "" {
			extra = append(extra, wproto.Call{M: "OperationForName", A: []string{strings.ToUpper(t[2])}}, wproto.Call{M: "OperationForName", A: []string{strings.ToLower(t[2])}})
		}
	}
	req := &wproto.Request{Op: "analyze", Docs: map[string]string{"/vfs/doc.json": string(Marshal(c.Doc))}, RootPath: "/vfs/doc.json", Calls: extra}
	count("library_calls", 1)
	resp, crash, _, err := call(worker(), req)
	switch {
	case err != nil:
		return nil, nil, "", err.Error()
	case crash != "":
		return nil, nil, "worker " + crash, ""
	case resp.LoadErr != "":
		return nil, nil, "", "generated document does not load: " + resp.LoadErr
	case resp.Panic != "":
		if strings.HasPrefix(resp.Panic, "worker:") {
			return nil, nil, "", resp.Panic
		}
		return nil, nil, "panic in " + resp.Panic, ""
	}
	ans = oracle.Answers{}
	for _, a := range resp.Fresh {
		ans[a.Call.Key()] = a.Ans
	}
	count("getter_calls", len(resp.Fresh))
	if resp.Before != resp.After {
		return nil, nil, "the document was modified by New or by a query", ""
	}
	return Obj(Parse([]byte(resp.Before))), ans, "", ""
}

func checkAnalyzer(id string, c *gen.APICase) Outcome {
	out := Outcome{}
	doc, ans, abnormal, harness := runAnalyze(c)
	if harness != "" {
		out.Harness = harness
		return out
	}
	if abnormal != "" {
		out.NT = true
		out.Fail = abnormal + "\n  doc: " + Trunc(string(Marshal(c.Doc)), 2500)
		return out
	}
	x := oracle.IndexDoc(doc)
	// generator self-check: nothing the walker sees in the generated document may be lost by the
	// spec model's serialisation (the oracle reads the serialised form, the library the loaded one)
	if gx := oracle.IndexDoc(c.Doc); len(gx.Refs["all"]) != len(x.Refs["all"]) || len(gx.Schemas) != len(x.Schemas) || len(gx.Pat["all"]) != len(x.Pat["all"]) || len(gx.Enum["all"]) != len(x.Enum["all"]) {
		out.Harness = "self-check: the generated document is not preserved by the spec model's serialisation: " + Trunc(string(Marshal(c.Doc)), 1500)
		return out
	}
	var err error
	switch id {
	case "C11":
		kinds := 0
		for _, k := range []string{"schema", "parameter", "response", "pathitem", "items"} {
			if len(x.Refs[k]) > 0 {
				kinds++
				out.Labels = append(out.Labels, "refkind:"+k)
			}
		}
		for h := range x.RefHolder {
			out.Labels = append(out.Labels, "refholder:"+h)
		}
		out.NT = kinds >= 2 && len(x.Refs["all"]) >= 3
		err = oracle.CheckC11(x, ans)
	case "C12":
		ptrEsc, urlEsc, templ := false, false, false
		for _, p := range x.Schemas {
			_, toks, _ := ParseRef(p)
			for _, t := range toks {
				ptrEsc = ptrEsc || gen.NeedsPtrEscape(t)
				urlEsc = urlEsc || gen.NeedsURLEscape(t)
				if strings.Contains(t, "{") && len(toks) > 1 && toks[0] == "paths" {
					templ = true
				}
			}
		}
		if ptrEsc {
			out.Labels = append(out.Labels, "schema-under-ptr-escaped-name")
		}
		if urlEsc {
			out.Labels = append(out.Labels, "schema-under-url-escaped-name")
		}
		if templ {
			out.Labels = append(out.Labels, "schema-under-templated-path")
		}
		if len(x.AllOf) > 0 {
			out.Labels = append(out.Labels, "has-allOf")
		}
		out.NT = (ptrEsc && urlEsc) || templ
		err = oracle.CheckC12(doc, x, ans)
	case "C13":
		for cell := range x.Coverage {
			out.Labels = append(out.Labels, "cell:"+cell)
		}
		out.NT = len(x.Coverage) >= 4
		err = oracle.CheckC13(x, ans)
	case "C14":
		prec := false
		for _, o := range x.Ops {
			for _, f := range []string{"consumes", "produces", "security"} {
				_, opHas := o.Op[f]
				_, docHas := doc[f]
				prec = prec || opHas || docHas
			}
			out.Labels = append(out.Labels, "method:"+strings.ToLower(o.Method))
		}
		out.NT = len(x.Ops) >= 2 && prec
		err = oracle.CheckC14(doc, x, ans, caseVariants())
	case "C15":
		txt := string(Marshal(doc))
		badRef := strings.Contains(txt, "#/parameters/nope") || strings.Contains(txt, `{"$ref":"#/definitions/d"}`) || strings.Contains(txt, `{"$ref":"#/parameters"}`)
		if badRef {
			out.Labels = append(out.Labels, "has-bad-param-ref")
		}
		if _, ok := doc["paths"]; !ok {
			out.Labels = append(out.Labels, "no-paths")
		}
		out.NT = true // every case carries miss lookups (missing path x 7 methods, unknown id)
		err = oracle.CheckC15(doc, x, ans)
	}
	if err != nil {
		if strings.HasPrefix(err.Error(), "HARNESS:") {
			out.Harness = err.Error()
			return out
		}
		out.NT = true
		out.Fail = err.Error() + "\n  doc: " + Trunc(string(Marshal(doc)), 2500)
	}
	return out
}

func caseVariants() map[string]string {
	m := map[string]string{}
	for i, meth := range oracle.Methods {
		if i%2 == 0 {
			m[strings.ToUpper(meth)] = meth
		} else {
			m[strings.ToUpper(meth)] = mixedCase(meth)
		}
	}
	return m
}

func apiCfg(id string) gen.APICfg {
	cfg := gen.APICfg{MaxDepth: MaxDepth(), MaxLayer: 3}
	switch id {
	case "C11":
		cfg.Refs = true
	case "C12":
		cfg.Refs = true
	case "C13":
		cfg.PatEnum = true
	case "C14":
		cfg.OpsMeta = true
		cfg.MaxDepth = 1
	case "C15":
		cfg.Params = true
		cfg.MaxDepth = 1
	}
	return cfg
}

func registerAnalyzer(id, rule string) {
	register(&Prop{
		ID:    id,
		Rule:  rule,
		Gen:   func(d *gen.D) interface{} { return gen.GenAPIDoc(d, apiCfg(id)) },
		New:   func() interface{} { return new(gen.APICase) },
		Check: func(c interface{}) Outcome { return checkAnalyzer(id, c.(*gen.APICase)) },
	})
}

const apiRule = "rapid draws one Swagger 2.0 document (0..3 definitions, shared parameters/responses, 0..3 paths from a pool with templates and odd characters, any subset of the seven methods, path- and operation-level parameters, default/status-code responses with headers and nested items, names over the layered alphabet); the worker builds analysis.New on it and answers every public getter; distinct = distinct SHA-256 of the case; "

func init() {
	registerAnalyzer("C11", apiRule+"$refs (not required to resolve) are planted at every ref-capable place and under every schema-bearing keyword; non-trivial = >= 2 reference kinds and >= 3 $refs in the document (the evidence carries the section x holder-keyword coverage table); oracle = multisets of $refs by kind from an independent walk of the serialised document (set equality for AllRefs)")
	registerAnalyzer("C12", apiRule+"non-trivial = a schema sits under a name needing JSON-pointer escaping and one under a name needing URL escaping, or under a templated path; oracle = every SchemaRef resolves (library pointer AND independent resolver) to the listed schema, the landed locations are exactly the schema positions of an independent walk, TopLevel and allOf flags")
	registerAnalyzer("C13", apiRule+"patterns and enums are planted on parameters (shared/path/operation), headers (shared/default/status-code), nested items, schemas; non-trivial = >= 4 distinct (owner kind, keyword) cells; oracle = reference model maps category -> '#'+RFC6901 pointer -> value, exact equality for the 10 getters")
	registerAnalyzer("C14", apiRule+"consumes/produces/security are drawn in three states (absent, empty, non-empty) at document and operation level; non-trivial = >= 2 operations and a precedence situation; oracle = reference model of the statement's decision tables for 14 getters, lookups with three letter cases, miss lookups")
	registerAnalyzer("C15", apiRule+"parameters are drawn from small (in,name) pools so overlaps are frequent, with $refs to shared parameters, dangling $refs and $refs to non-parameters; every method x (path + a missing path) and every unique id + an unknown id is queried with ParamsFor, SafeParamsFor(continue/stop), ParametersFor, SafeParametersFor; non-trivial = every case (each carries miss lookups); oracle = reference model of merge rule, callback protocol and panic contract")
}
