package props

import (
	"encoding/json"
	"fmt"
	"strings"

	"verif/harness/gen"
	. "verif/harness/jsonx"
	"verif/harness/oracle"
	"verif/harness/wproto"

	"github.com/go-openapi/spec"
)

// flatRun is one execution of Flatten in the worker.
type flatRun struct {
	resp    *wproto.Response
	crash   string
	slow    bool
	harness string
	before  O
	after   O
}

func docsText(c *gen.FlattenCase, seed uint64) map[string]string {
	out := map[string]string{}
	for p, d := range c.Docs() {
		out[p] = string(MarshalPermuted(d, seed))
	}
	return out
}

func runFlatten(c *gen.FlattenCase, docs map[string]string, mod func(*wproto.Request)) *flatRun {
	req := &wproto.Request{Op: "flatten", Docs: docs, RootPath: c.RootPath(), Opts: c.Opts}
	if mod != nil {
		mod(req)
	}
	count("library_calls", 1)
	resp, crash, slow, err := call(worker(), req)
	r := &flatRun{resp: resp, crash: crash, slow: slow}
	if err != nil {
		r.harness = err.Error()
		return r
	}
	if crash != "" {
		return r
	}
	if resp.LoadErr != "" {
		r.harness = "generated root does not load: " + resp.LoadErr
		return r
	}
	if resp.Panic != "" && strings.HasPrefix(resp.Panic, "worker:") {
		r.harness = resp.Panic
		return r
	}
	if resp.Before != "" {
		r.before = Obj(Parse([]byte(resp.Before)))
	}
	if resp.After != "" {
		r.after = Obj(Parse([]byte(resp.After)))
	}
	return r
}

// selfCheck: generator soundness. The root is in the spec model's serialisation normal form and
// every $ref of every document resolves with our own resolver. A failure here is a harness bug.
func selfCheck(c *gen.FlattenCase, wantResolve bool) string {
	var sw spec.Swagger
	rootTxt := Marshal(c.Root)
	if err := json.Unmarshal(rootTxt, &sw); err != nil {
		return "self-check: root does not load: " + err.Error()
	}
	b, err := json.Marshal(&sw)
	if err != nil {
		return "self-check: root does not serialise: " + err.Error()
	}
	if !Equal(Parse(b), J(c.Root)) {
		return fmt.Sprintf("self-check: root is not in serialisation normal form:\n gen: %s\n rt : %s", rootTxt, b)
	}
	if !wantResolve {
		return ""
	}
	w := &oracle.World{Docs: c.Docs()}
	var bad string
	var visit func(l oracle.Loc, v J)
	visit = func(l oracle.Loc, v J) {
		if bad != "" {
			return
		}
		if _, ok := oracle.RefOf(v); ok {
			if _, _, err := w.Deref(l, v); err != nil {
				bad = err.Error()
			}
			return
		}
		switch x := v.(type) {
		case map[string]interface{}:
			for _, k := range SortedKeys(x) {
				visit(l.Child(k), x[k])
			}
		case []interface{}:
			for i, e := range x {
				visit(l.Child(fmt.Sprint(i)), e)
			}
		}
	}
	for p, d := range c.Docs() {
		visit(oracle.Loc{Doc: p}, d)
	}
	if bad != "" {
		return "self-check: generated $ref does not resolve: " + bad
	}
	return ""
}

// features measures what a bundle contains (for labels and non-triviality rules).
type features struct {
	remoteRefs, localRefs, anonPtrs, sharedRefs, pathItemRefs int
	ptrEscNames, urlEscNames                                  int
	inlineComplex                                             int
	cyclic                                                    bool
	nestedDefs                                                bool
	holders                                                   map[string]bool
}

func bundleFeatures(c *gen.FlattenCase) *features {
	f := &features{holders: map[string]bool{}}
	for p, d := range c.Docs() {
		isRoot := p == c.RootPath()
		v := &oracle.Visitor{
			Ref: func(l oracle.Loc, kind, ref string) {
				file, toks, err := ParseRef(ref)
				if err != nil {
					return
				}
				switch {
				case kind == "pathitem":
					f.pathItemRefs++
				case kind == "parameter" || kind == "response":
					f.sharedRefs++
				case file != "":
					f.remoteRefs++
				case len(toks) == 2 && toks[0] == "definitions":
					f.localRefs++
				default:
					f.anonPtrs++
				}
			},
			Schema: func(l oracle.Loc, s O, holder string) {
				f.holders[holder] = true
				if holder == "definitions" && len(l.Tokens) > 2 {
					f.nestedDefs = true
				}
				if isRoot && !(len(l.Tokens) == 2 && l.Tokens[0] == "definitions") && oracle.IsComplex(s) {
					f.inlineComplex++
				}
				for _, n := range SortedKeys(Obj(s["properties"])) {
					if gen.NeedsPtrEscape(n) {
						f.ptrEscNames++
					}
					if gen.NeedsURLEscape(n) {
						f.urlEscNames++
					}
				}
			},
		}
		if isRoot {
			oracle.WalkSwagger(p, d, v)
		} else {
			// auxiliary documents: definitions / parameters / responses / pathItems sections
			oracle.WalkSwagger(p, O{"definitions": d["definitions"], "parameters": d["parameters"], "responses": d["responses"], "paths": d["pathItems"]}, v)
		}
		for _, n := range SortedKeys(Obj(d["definitions"])) {
			if gen.NeedsPtrEscape(n) {
				f.ptrEscNames++
			}
			if gen.NeedsURLEscape(n) {
				f.urlEscNames++
			}
		}
	}
	acyc, err := oracle.BundleAcyclic(c.Docs())
	f.cyclic = err == nil && !acyc
	return f
}

func (f *features) labels() []string {
	m := map[string]bool{
		"has:remote-ref":     f.remoteRefs > 0,
		"has:anon-pointer":   f.anonPtrs > 0,
		"has:shared-ref":     f.sharedRefs > 0,
		"has:pathitem-ref":   f.pathItemRefs > 0,
		"has:ptr-esc-name":   f.ptrEscNames > 0,
		"has:url-esc-name":   f.urlEscNames > 0,
		"has:inline-complex": f.inlineComplex > 0,
		"has:cycle":          f.cyclic,
		"acyclic":            !f.cyclic,
	}
	for h := range f.holders {
		m["holder:"+h] = true
	}
	return sortedSet(m)
}

func flatIn(c *gen.FlattenCase, r *flatRun) *oracle.FlatIn {
	return &oracle.FlatIn{Docs: c.Docs(), RootPath: c.RootPath(), Before: r.before, After: r.after, RemoveUnused: c.Opts.RemoveUnused}
}

// successOracles runs the oracles C01..C03/C05/C06 that apply to the option set; returns the
// first failure tagged with the property it belongs to.
func successOracles(c *gen.FlattenCase, r *flatRun, which map[string]bool) (prop, msg string) {
	in := flatIn(c, r)
	if which["C01"] {
		if err := oracle.CheckC01(in); err != nil {
			return "C01", err.Error()
		}
	}
	if which["C02"] && !c.Opts.Expand {
		if err := oracle.CheckC02(in.RootPath, in.After); err != nil {
			return "C02", err.Error()
		}
	}
	if which["C03"] && !c.Opts.Expand && !c.Opts.Minimal {
		if err := oracle.CheckC03(in.RootPath, in.Before, in.After); err != nil {
			return "C03", err.Error()
		}
	}
	if which["C05"] && c.Opts.Expand {
		if _, err := oracle.CheckC05Refs(in.RootPath, in.After); err != nil {
			return "C05", err.Error()
		}
	}
	if which["C06"] && c.Opts.RemoveUnused {
		if err := oracle.CheckC06(in.RootPath, in.After); err != nil {
			return "C06", err.Error()
		}
	}
	return "", ""
}

func describe(c *gen.FlattenCase, r *flatRun) string {
	s := fmt.Sprintf("\n  opts: %s\n  root: %s", c.Opts, Trunc(string(Marshal(c.Root)), 1500))
	for _, p := range SortedKeys(func() O {
		o := O{}
		for k := range c.Aux {
			o[k] = nil
		}
		return o
	}()) {
		s += fmt.Sprintf("\n  %s: %s", p, Trunc(string(Marshal(c.Aux[p])), 800))
	}
	if r != nil && r.after != nil {
		s += "\n  after: " + Trunc(string(Marshal(r.after)), 1500)
	}
	return s
}

var allSuccess = map[string]bool{"C01": true, "C02": true, "C03": true, "C05": true, "C06": true}

// checkFlattenCore decides C01..C06 on one case.
func checkFlattenCore(id string, c *gen.FlattenCase) Outcome {
	out := Outcome{}
	if msg := selfCheck(c, true); msg != "" {
		out.Harness = msg
		return out
	}
	f := bundleFeatures(c)
	out.Labels = append(f.labels(), "opts:"+c.Opts.String())
	r := runFlatten(c, docsText(c, 0), nil)
	if r.harness != "" {
		out.Harness = r.harness
		return out
	}
	out.Slow = r.slow
	// abnormal endings belong to C04 (and C06 for a non-terminating removal); vacuous elsewhere
	abnormal := ""
	switch {
	case r.crash != "":
		abnormal = "Flatten did not return: worker " + r.crash
	case r.resp.Panic != "":
		abnormal = "panic in " + r.resp.Panic
	case r.resp.Err != "":
		abnormal = "Flatten returned an error on a well-formed bundle: " + r.resp.Err
	}
	if abnormal != "" {
		out.Labels = append(out.Labels, "flatten:abnormal")
		if id == "C04" || (id == "C06" && c.Opts.RemoveUnused && strings.HasPrefix(r.crash, "hang")) {
			out.NT = true
			out.Fail = abnormal + describe(c, r)
			return out
		}
		out.Vacuous = true
		return out
	}
	changed := r.resp.Before != r.resp.After
	if changed {
		out.Labels = append(out.Labels, "flatten:changed")
	}
	which := map[string]bool{id: true}
	switch id {
	case "C04":
		which = allSuccess
		out.NT = f.remoteRefs+f.anonPtrs+f.ptrEscNames+f.urlEscNames+f.sharedRefs+f.pathItemRefs > 0 || f.cyclic
	case "C01":
		out.NT = changed
	case "C02":
		out.NT = f.remoteRefs+f.anonPtrs+f.sharedRefs+f.pathItemRefs > 0
	case "C03":
		which["C01"] = true // pre-existing definitions keep their meaning
		out.NT = f.inlineComplex > 0
	case "C05":
		which["C01"] = true
	case "C06":
		which["C01"] = true
	}
	if prop, msg := successOracles(c, r, which); msg != "" {
		out.Fail = fmt.Sprintf("[%s clause] %s%s", prop, msg, describe(c, r))
		out.NT = true
		return out
	}
	switch id {
	case "C05":
		nrefs, _ := oracle.CheckC05Refs(c.RootPath(), r.after)
		if !f.cyclic {
			out.NT = f.remoteRefs+f.localRefs+f.sharedRefs+f.pathItemRefs > 0
			if nrefs > 0 || strings.Contains(r.resp.After, `"$ref"`) {
				out.Fail = fmt.Sprintf("bundle has no reference cycle but %d $ref remain after Expand%s", nrefs, describe(c, r))
				return out
			}
			r2 := runFlatten(c, docsText(c, 0), nil)
			if r2.harness != "" {
				out.Harness = r2.harness
				return out
			}
			if r2.crash != "" || r2.resp.After != r.resp.After {
				out.Fail = fmt.Sprintf("Expand of an acyclic bundle is not reproducible: second run gave crash=%q err=%q\n  1st: %s\n  2nd: %s%s", r2.crash, r2.resp.Err, Trunc(r.resp.After, 1500), Trunc(r2.resp.After, 1500), describe(c, nil))
				return out
			}
		} else {
			out.NT = f.remoteRefs > 0
			if out.NT {
				out.Labels = append(out.Labels, "cyclic-with-remote")
			}
		}
	case "C06":
		nb, na := len(Obj(r.before["definitions"])), len(Obj(r.after["definitions"]))
		removed := 0
		for _, n := range SortedKeys(Obj(r.before["definitions"])) {
			if _, ok := Obj(r.after["definitions"])[n]; !ok {
				removed++
			}
		}
		_ = nb
		_ = na
		if removed > 0 {
			out.Labels = append(out.Labels, "removed-definition")
		}
		usedSpecial := false
		for _, n := range SortedKeys(Obj(r.after["definitions"])) {
			if gen.NeedsPtrEscape(n) || gen.NeedsURLEscape(n) {
				usedSpecial = true
			}
		}
		if usedSpecial {
			out.Labels = append(out.Labels, "kept-escaped-name")
		}
		out.NT = removed > 0 || usedSpecial
	}
	return out
}

func flattenCfg(id string) gen.BundleCfg {
	// anyOf / oneOf / not / patternProperties / nested definitions are not part of the Swagger 2.0 schema
	// object: documents using them are outside W ("a root Swagger 2.0 document ...") and only C09 (class W+,
	// "any document the spec model can load") generates them
	cfg := gen.BundleCfg{MaxDepth: MaxDepth(), MaxLayer: 3, Exotic: id == "C09", AnonPtrs: true, OptSets: gen.AllOptSets}
	switch id {
	case "C02", "C08":
		cfg.OptSets = []wproto.FlattenOpts{gen.OptMinimal, gen.OptMinimalRU, gen.OptFull, gen.OptFullRU}
	case "C03":
		cfg.OptSets = []wproto.FlattenOpts{gen.OptFull, gen.OptFullRU}
	case "C05":
		cfg.OptSets = []wproto.FlattenOpts{gen.OptExpand, gen.OptExpandRU}
	case "C06":
		cfg.OptSets = []wproto.FlattenOpts{gen.OptMinimalRU, gen.OptFullRU, gen.OptExpandRU}
	}
	applyKnownSwitches(&cfg)
	return cfg
}

func registerFlattenCore(id, rule string) {
	register(&Prop{
		ID:   id,
		Rule: rule,
		Gen: func(d *gen.D) interface{} {
			return gen.GenFlattenCase(d, flattenCfg(id))
		},
		New:   func() interface{} { return new(gen.FlattenCase) },
		Check: func(c interface{}) Outcome { return checkFlattenCore(id, c.(*gen.FlattenCase)) },
	})
}

const wRule = "rapid draws a bundle of class W (root Swagger document + 0..3 auxiliary documents in nested directories, names over the layered alphabet, local/remote/recursive $refs, shared parameter/response/path-item refs, anonymous pointers under Minimal/full, colliding $ref-free imports) and an option set; distinct = distinct SHA-256 of the materialised case; "

func init() {
	registerFlattenCore("C01", wRule+"non-trivial = Flatten returned nil and changed the serialised document; oracle = two-directional bisimulation of the $ref-unfolded documents before/after")
	registerFlattenCore("C02", wRule+"Minimal/full only; non-trivial = the input held at least one non-canonical $ref (remote, shared parameter/response/path item, anonymous pointer); oracle = scan of every $ref of the output with the kind of its holder")
	registerFlattenCore("C03", wRule+"full mode only; non-trivial = the root held at least one complex schema inline outside definition bodies; oracle = independent complexity rule at every schema position + case-folded name uniqueness")
	registerFlattenCore("C04", wRule+"non-trivial = the bundle has a remote ref, pointer, shared ref, escaped name or recursion; oracle = Flatten returns nil (no panic, crash, hang) and C01-C03/C05/C06 clauses of its mode hold")
	registerFlattenCore("C05", wRule+"Expand only; non-trivial = acyclic bundle with at least one $ref, or cyclic bundle with a remote ref; oracle = residual refs are canonical+resolve, bisimulation, acyclic => no $ref and byte-identical second run")
	registerFlattenCore("C06", wRule+"RemoveUnused only; non-trivial = a definition was removed or a kept definition name needs pointer/URL escaping; oracle = shared sections empty, every kept definition referenced, nothing dangles, bisimulation, termination")
}
