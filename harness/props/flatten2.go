package props

import (
	"fmt"
	"os"
	"strings"

	"verif/harness/gen"
	. "verif/harness/jsonx"
	"verif/harness/oracle"
	"verif/harness/wproto"
)

// ---- C07 determinism ---------------------------------------------------------------------------

func newDefs(before, after O) int {
	n := 0
	bd := Obj(before["definitions"])
	for _, k := range SortedKeys(Obj(after["definitions"])) {
		if _, ok := bd[k]; !ok {
			n++
		}
	}
	return n
}

var go126Client *wproto.Client

func go126Worker() *wproto.Client {
	p := os.Getenv("VERIF_WORKER_GO126")
	if p == "" || !Thorough() {
		return nil
	}
	if _, err := os.Stat(p); err != nil {
		return nil
	}
	if go126Client == nil {
		go126Client = &wproto.Client{Path: p}
	}
	return go126Client
}

func checkC07(c *gen.FlattenCase) Outcome {
	out := Outcome{}
	if msg := selfCheck(c, true); msg != "" {
		out.Harness = msg
		return out
	}
	f := bundleFeatures(c)
	out.Labels = append(f.labels(), "opts:"+c.Opts.String())
	seeds := c.PermSeeds
	if len(seeds) < 2 {
		seeds = []uint64{0, 0}
	}
	type res struct {
		class string // nil | error | abnormal
		after string
		msg   string
		how   string
	}
	var first *res
	for i, sd := range seeds {
		if i == len(seeds)/2 {
			worker().Kill() // fresh process: fresh hash seeds, fresh caches
		}
		cl := worker()
		how := fmt.Sprintf("run %d (key order seed %d)", i, sd)
		if i == len(seeds)-1 {
			if g := go126Worker(); g != nil {
				cl = g
				how += " on the go1.26 worker"
				out.Labels = append(out.Labels, "second-toolchain")
			}
		}
		req := &wproto.Request{Op: "flatten", Docs: docsText(c, sd), RootPath: c.RootPath(), Opts: c.Opts}
		count("library_calls", 1)
		resp, crash, slow, err := call(cl, req)
		if err != nil {
			out.Harness = err.Error()
			return out
		}
		out.Slow = out.Slow || slow
		r := &res{how: how}
		switch {
		case crash != "":
			r.class, r.msg = "abnormal", crash
		case resp.LoadErr != "":
			out.Harness = "generated root does not load: " + resp.LoadErr
			return out
		case resp.Panic != "":
			r.class, r.msg = "abnormal", resp.Panic
		case resp.Err != "":
			r.class, r.msg = "error", resp.Err
		default:
			r.class, r.after = "nil", resp.After
			if i == 0 {
				if n := newDefs(Obj(Parse([]byte(resp.Before))), Obj(Parse([]byte(resp.After)))); n >= 2 {
					out.Labels = append(out.Labels, "created>=2")
					out.NT = true
				}
			}
		}
		if first == nil {
			first = r
			continue
		}
		if r.class != first.class || r.after != first.after {
			out.NT = true
			out.Fail = fmt.Sprintf("Flatten is not deterministic: %s gave %s %s, %s gave %s %s\n  first : %s\n  second: %s%s",
				first.how, first.class, Trunc(first.msg, 200), r.how, r.class, Trunc(r.msg, 200), Trunc(first.after, 1500), Trunc(r.after, 1500), describe(c, nil))
			return out
		}
	}
	for _, l := range c.GenLabels {
		if l == "collision" {
			out.NT = true
		}
	}
	if first.class != "nil" {
		out.Vacuous = true
		out.NT = false
	}
	return out
}

func init() {
	register(&Prop{
		ID: "C07",
		Rule: wRule + "Minimal/full (Expand only for acyclic bundles) plus drawn key-order permutations of every document; each case is flattened R times from identical bytes and P times from key-permuted bytes (quick 2+2, thorough 3+5, the last run on a go1.26-built worker in thorough), with a worker restart in the middle; " +
			"non-trivial = Flatten returned nil and the case has a choice point (an import name collision, or >= 2 created definitions); oracle = byte equality of json.Marshal(document) and of the nil/error outcome across all runs",
		Gen: func(d *gen.D) interface{} {
			cfg := flattenCfg("C07")
			c := gen.GenFlattenCase(d, cfg)
			if c.Opts.Expand {
				if acyc, err := oracle.BundleAcyclic(c.Docs()); err != nil || !acyc {
					c.Opts.Expand = false // C07 claims Expand only for bundles without reference cycle
				}
			}
			r, p := 2, 2
			if Thorough() {
				r, p = 3, 5
			}
			for i := 0; i < r; i++ {
				c.PermSeeds = append(c.PermSeeds, 0)
			}
			for i := 0; i < p; i++ {
				c.PermSeeds = append(c.PermSeeds, d.U64()|1)
			}
			return c
		},
		New:   func() interface{} { return new(gen.FlattenCase) },
		Check: func(c interface{}) Outcome { return checkC07(c.(*gen.FlattenCase)) },
	})
}

// ---- C08 idempotence ---------------------------------------------------------------------------

func checkC08(c *gen.FlattenCase) Outcome {
	out := Outcome{}
	if msg := selfCheck(c, true); msg != "" {
		out.Harness = msg
		return out
	}
	f := bundleFeatures(c)
	out.Labels = append(f.labels(), "opts:"+c.Opts.String())
	r := runFlatten(c, docsText(c, 0), nil)
	if r.harness != "" {
		out.Harness = r.harness
		return out
	}
	if r.crash != "" || r.resp.Panic != "" || r.resp.Err != "" {
		out.Vacuous = true
		return out
	}
	out.NT = r.resp.Before != r.resp.After
	docs := docsText(c, 0)
	docs[c.RootPath()] = r.resp.After
	r2 := runFlatten(c, docs, nil)
	if r2.harness != "" {
		out.Harness = r2.harness
		return out
	}
	switch {
	case r2.crash != "":
		out.Fail = "second Flatten of the flattened document did not return: worker " + r2.crash
	case r2.resp.Panic != "":
		out.Fail = "second Flatten of the flattened document panicked: " + r2.resp.Panic
	case r2.resp.Err != "":
		out.Fail = "second Flatten of the flattened document failed: " + r2.resp.Err
	case r2.resp.After != r.resp.After:
		out.Fail = "second Flatten changed the flattened document"
	}
	if out.Fail != "" {
		out.NT = true
		out.Fail += fmt.Sprintf("\n  1st: %s\n  2nd: %s%s", Trunc(r.resp.After, 1500), Trunc(r2.resp.After, 1500), describe(c, nil))
	}
	return out
}

func init() {
	register(&Prop{
		ID:    "C08",
		Rule:  wRule + "Minimal/full with and without RemoveUnused; the serialised output of a successful Flatten is loaded again (same base path, auxiliary files still served) and flattened with the same options; non-trivial = the first pass changed the document; oracle = second pass returns nil and json.Marshal is byte-identical",
		Gen:   func(d *gen.D) interface{} { return gen.GenFlattenCase(d, flattenCfg("C08")) },
		New:   func() interface{} { return new(gen.FlattenCase) },
		Check: func(c interface{}) Outcome { return checkC08(c.(*gen.FlattenCase)) },
	})
}

// ---- C10 analyzer in sync ----------------------------------------------------------------------

func checkC10(c *gen.FlattenCase) Outcome {
	out := Outcome{}
	if msg := selfCheck(c, true); msg != "" {
		out.Harness = msg
		return out
	}
	f := bundleFeatures(c)
	out.Labels = append(f.labels(), "opts:"+c.Opts.String())
	r := runFlatten(c, docsText(c, 0), func(req *wproto.Request) { req.Dump = true })
	if r.harness != "" {
		out.Harness = r.harness
		return out
	}
	if r.crash != "" || r.resp.Panic != "" || r.resp.Err != "" {
		out.Vacuous = true
		return out
	}
	out.NT = r.resp.Before != r.resp.After
	if removedDefs(r.before, r.after) > 0 {
		out.Labels = append(out.Labels, "removed-definition")
	}
	if newDefs(r.before, r.after) > 0 {
		out.Labels = append(out.Labels, "created-definition")
	}
	if len(r.resp.Passed) != len(r.resp.Fresh) || len(r.resp.Fresh) == 0 {
		out.Harness = "worker returned no getter answers"
		return out
	}
	count("getter_calls_compared", len(r.resp.Fresh))
	for i, a := range r.resp.Passed {
		b := r.resp.Fresh[i]
		if string(a.Ans) != string(b.Ans) {
			out.NT = true
			out.Fail = fmt.Sprintf("after Flatten the analyzed Spec that was passed in is stale: %s answers %s but a fresh analysis of the rewritten document answers %s%s",
				a.Call.Key(), Trunc(string(a.Ans), 600), Trunc(string(b.Ans), 600), describe(c, r))
			return out
		}
	}
	return out
}

func removedDefs(before, after O) int {
	n := 0
	ad := Obj(after["definitions"])
	for _, k := range SortedKeys(Obj(before["definitions"])) {
		if _, ok := ad[k]; !ok {
			n++
		}
	}
	return n
}

func init() {
	register(&Prop{
		ID:    "C10",
		Rule:  wRule + "all option sets; after a nil Flatten the worker evaluates every public getter (26 zero-argument getters, 9 per method x path incl. a missing path, 4 per operation id incl. an unknown id) on the Spec that was passed in and on analysis.New(document); non-trivial = Flatten changed the document; oracle = equality of the canonicalised answers",
		Gen:   func(d *gen.D) interface{} { return gen.GenFlattenCase(d, flattenCfg("C10")) },
		New:   func() interface{} { return new(gen.FlattenCase) },
		Check: func(c interface{}) Outcome { return checkC10(c.(*gen.FlattenCase)) },
	})
}

// ---- C09 fail safe -----------------------------------------------------------------------------

func abnormalEnd(r *flatRun) string {
	switch {
	case r.crash != "":
		return "worker " + r.crash
	case r.resp.Panic != "":
		return "panic in " + r.resp.Panic
	}
	return ""
}

func checkC09(c *gen.WPlusCase) Outcome {
	out := Outcome{}
	fc := &c.FlattenCase
	inW := len(c.Kinds) == 0 && !usesNonSwagger2Keywords(fc)
	if c.RawRoot == "" {
		if msg := selfCheck(fc, inW); msg != "" {
			out.Harness = msg
			return out
		}
	}
	out.Labels = append(out.Labels, "opts:"+fc.Opts.String())
	unresolvable := false
	for _, k := range c.Kinds {
		out.Labels = append(out.Labels, "wplus:"+k)
		unresolvable = unresolvable || gen.Unresolvable(k)
	}
	if inW {
		out.Labels = append(out.Labels, "in-W")
	}
	// (a) fault-free run, with New and Schema probed on every schema position first
	docs := docsText(fc, 0)
	if c.RawRoot != "" {
		docs[fc.RootPath()] = c.RawRoot
	}
	r := runFlatten(fc, docs, func(req *wproto.Request) { req.Probe = !c.NoProbe })
	if r.harness != "" {
		out.Harness = r.harness
		return out
	}
	out.Slow = r.slow
	if ab := abnormalEnd(r); ab != "" {
		out.NT = true
		out.Fail = "New/Schema/Flatten did not end normally: " + ab + describe(fc, r)
		return out
	}
	if unresolvable {
		out.NT = true
		if r.resp.Err == "" {
			out.Fail = fmt.Sprintf("the bundle holds a $ref that cannot be resolved (%s) but Flatten reported success%s", strings.Join(c.Kinds, ", "), describe(fc, r))
			return out
		}
		out.Labels = append(out.Labels, "unresolvable:error")
		return out
	}
	if !inW {
		out.NT = true
		if r.resp.Err != "" {
			out.Labels = append(out.Labels, "wplus:error")
		} else {
			out.Labels = append(out.Labels, "wplus:nil")
		}
		// W+ bundles: the success oracles are not claimed, but every load fault must still end in an
		// error or a normal return, never in a panic, crash or hang
		if c.RawRoot == "" {
			for k := 1; k <= r.resp.Loads; k++ {
				k := k
				rf := runFlatten(fc, docs, func(req *wproto.Request) { req.FaultK, req.FaultSticky = k, k%2 == 0 })
				if rf.harness != "" {
					out.Harness = rf.harness
					return out
				}
				count("fault_points_wplus", 1)
				if ab := abnormalEnd(rf); ab != "" {
					out.Fail = fmt.Sprintf("Flatten of a W+ bundle with load #%d of %d failing did not end normally: %s%s", k, r.resp.Loads, ab, describe(fc, nil))
					return out
				}
			}
		}
		return out
	}
	if r.resp.Err != "" {
		out.Vacuous = true // C04's business; faults are enumerated on runs that succeed fault-free
		return out
	}
	// (b) every k-th load fails, in two shapes
	L := r.resp.Loads
	out.Labels = append(out.Labels, fmt.Sprintf("loads:%d", bucket(L)))
	if L > 0 {
		out.NT = true
	}
	for k := 1; k <= L; k++ {
		for _, sticky := range []bool{false, true} {
			k, sticky := k, sticky
			rf := runFlatten(fc, docsText(fc, 0), func(req *wproto.Request) { req.FaultK, req.FaultSticky = k, sticky })
			if rf.harness != "" {
				out.Harness = rf.harness
				return out
			}
			if rf.crash == "" && rf.resp.FaultHits == 0 {
				// the k-th load did not happen in this run (the number of loads depends on map
				// iteration order): no fault was injected, nothing to judge
				count("fault_points_not_reached", 1)
				continue
			}
			count("fault_points", 1)
			shape := "once"
			if sticky {
				shape = "permanently"
			}
			where := fmt.Sprintf("with load #%d of %d failing %s", k, L, shape)
			if ab := abnormalEnd(rf); ab != "" {
				out.Fail = fmt.Sprintf("Flatten %s did not end normally: %s%s", where, ab, describe(fc, nil))
				return out
			}
			if rf.resp.Err != "" {
				count("fault_points_error", 1)
				continue
			}
			count("fault_points_nil", 1)
			if sticky {
				out.Fail = fmt.Sprintf("Flatten %s (a referenced document cannot be loaded) reported success; loads seen: %v%s", where, rf.resp.LoadTrace, describe(fc, rf))
				return out
			}
			// a transient failure the library recovered from: success may only be reported for a complete result
			if prop, msg := successOracles(fc, rf, allSuccess); msg != "" {
				out.Fail = fmt.Sprintf("Flatten %s reported success with a half result: [%s clause] %s; loads seen: %v%s", where, prop, msg, rf.resp.LoadTrace, describe(fc, rf))
				return out
			}
		}
	}
	return out
}

// usesNonSwagger2Keywords: some schema of the bundle hangs from anyOf / oneOf / not / patternProperties
// or from a "definitions" keyword nested in a schema.
func usesNonSwagger2Keywords(c *gen.FlattenCase) bool {
	f := bundleFeatures(c)
	for _, h := range []string{"anyOf", "oneOf", "not", "patternProperties"} {
		if f.holders[h] {
			return true
		}
	}
	return f.nestedDefs
}

func bucket(n int) int {
	switch {
	case n == 0:
		return 0
	case n <= 2:
		return 2
	case n <= 5:
		return 5
	case n <= 10:
		return 10
	case n <= 20:
		return 20
	}
	return 99
}

func wplusAllowed() []string {
	loadKnown()
	excl := map[string]bool{}
	for _, f := range known.Open {
		for _, s := range f.Switches {
			if strings.HasPrefix(s, "NoWPlus:") {
				excl[strings.TrimPrefix(s, "NoWPlus:")] = true
			}
		}
	}
	var out []string
	for _, k := range gen.WPlusKinds {
		if !excl[k] {
			out = append(out, k)
		}
	}
	return out
}

func init() {
	register(&Prop{
		ID: "C09",
		Rule: wRule + "plus, on about half of the cases, 1-2 W+ switches (dangling local/remote/fragment/pointer refs, back-reference to the root, pointers to operations / nested inline schemas / inside pointer targets, pointer cycles, colliding imports with refs, $ref in simple items, whole-document refs, bare-ref cycles, pointer to a non-schema); " +
			"every case: New, Schema on every schema position and Flatten must end without panic, crash or hang (worker-process attribution, CPU-time budget); unresolvable $ref => Flatten must return an error; " +
			"for W cases that succeed fault-free, EVERY k in 1..L (L = observed document loads) is enumerated in two shapes (k-th load fails once / k-th and all later loads of that document fail): the answer must be an error, or for a transient fault nil with an output passing the C01/C02/C03/C05/C06 oracles; " +
			"non-trivial = a W+ switch is on or L >= 1",
		Gen: func(d *gen.D) interface{} {
			cfg := flattenCfg("C09")
			if d.Pct(50) {
				return gen.GenWPlusCase(d, cfg, wplusAllowed())
			}
			return &gen.WPlusCase{FlattenCase: *gen.GenFlattenCase(d, cfg)}
		},
		New:   func() interface{} { return new(gen.WPlusCase) },
		Check: func(c interface{}) Outcome { return checkC09(c.(*gen.WPlusCase)) },
	})
}
