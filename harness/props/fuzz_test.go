package props

import (
	"encoding/json"
	"os"
	"path/filepath"
	"testing"

	"verif/harness/gen"
	. "verif/harness/jsonx"

	"github.com/go-openapi/spec"
)

// fixedAux is the small fixed file system served to fuzzed root documents.
func fixedAux() map[string]O {
	defs := O{}
	for _, n := range []string{"pet", "Pet", "owner", "tag", "thing", "a/b", "x y"} {
		defs[n] = O{"type": "object", "properties": O{"id": O{"type": "integer"}, "next": O{"$ref": "#/definitions/" + PtrEsc(n)}}}
	}
	defs["list"] = O{"type": "array", "items": O{"$ref": "#/definitions/list"}}
	doc := O{
		"definitions": defs,
		"parameters":  O{"rp": O{"name": "rb", "in": "body", "schema": O{"$ref": "#/definitions/pet"}}, "rq": O{"name": "rq", "in": "query", "type": "integer"}},
		"responses":   O{"rr": O{"description": "remote", "schema": O{"$ref": "#/definitions/tag"}}},
		"pathItems":   O{"pi": O{"get": O{"responses": O{"200": O{"description": "pi", "schema": O{"$ref": "#/definitions/owner"}}}}}},
	}
	out := map[string]O{}
	for _, p := range gen.AuxPaths {
		out[p] = doc
	}
	return out
}

// FuzzC09 is the byte-level part of C09: any byte string the spec model can unmarshal is given to
// New, Schema (every schema position) and Flatten in the worker process; the oracle is "ends
// without panic, crash or confirmed hang". The second argument selects the option set.
func FuzzC09(f *testing.F) {
	if dir := os.Getenv("VERIF_FUZZ_SEEDS"); dir != "" {
		files, _ := filepath.Glob(filepath.Join(dir, "*.json"))
		for i, p := range files {
			if b, err := os.ReadFile(p); err == nil {
				f.Add(b, byte(i))
			}
		}
	}
	f.Add([]byte(`{"swagger":"2.0","paths":{"/a":{"get":{"responses":{"200":{"description":"r","schema":{"$ref":"aux/a.json#/definitions/pet"}}}}}}}`), byte(2))
	f.Add([]byte(`{"swagger":"2.0","definitions":{"a":{"$ref":"#/definitions/b"},"b":{"$ref":"#/definitions/a"}},"paths":{}}`), byte(0))
	aux := fixedAux()
	Confirm = true // a provisional hang is re-run with the long CPU budget before it counts
	f.Fuzz(func(t *testing.T, data []byte, ob byte) {
		var sw spec.Swagger
		if json.Unmarshal(data, &sw) != nil {
			return
		}
		v, err := TryParse(data)
		root, ok := v.(map[string]interface{})
		if err != nil || !ok {
			return
		}
		c := &gen.WPlusCase{Kinds: []string{"fuzz"}, RawRoot: string(data)}
		c.Dir, c.Root, c.Aux = "/vfs/api", root, aux
		c.Opts = gen.AllOptSets[int(ob)%len(gen.AllOptSets)]
		out := checkC09(c)
		if out.Harness != "" {
			t.Skip("harness: " + out.Harness)
		}
		if out.Fail != "" {
			if classify("C09", c, out.Fail) != "" {
				return
			}
			dir := envOr("VERIF_REPLAY_DIR", "/verif/replays/C09")
			_ = os.MkdirAll(dir, 0o755)
			cb, _ := json.Marshal(c)
			b, _ := json.MarshalIndent(replayFile{Property: "C09", Failure: out.Fail, Case: cb}, "", " ")
			_ = os.WriteFile(filepath.Join(dir, "fuzz-"+Hash(string(data))+".json"), b, 0o644)
			t.Fatalf("C09 violated: %s", Trunc(out.Fail, 1500))
		}
	})
}
