// Package props holds the executable properties C01..C20: each is a rapid property made of a
// generator (package gen), a call into the worker process (code under test) and an oracle (package
// oracle). The same check function serves the search (rapid) and the replay of a saved case.
package props

import (
	"encoding/json"
	"fmt"
	"os"
	"path/filepath"
	"sort"
	"strconv"
	"strings"
	"sync"
	"testing"

	"verif/harness/gen"
	. "verif/harness/jsonx"
	"verif/harness/wproto"

	"pgregory.net/rapid"
)

// Outcome of checking one case against one property.
type Outcome struct {
	Fail    string   // violation of the property ("" = held on this case)
	Harness string   // the machinery failed (never a violation)
	Vacuous bool     // the property's premise did not hold on this case (e.g. Flatten returned an error)
	NT      bool     // non-trivial by the property's rule
	Labels  []string // coverage labels
	Known   string   // id of the open known finding that explains Fail
	Slow    bool     // provisional hang that finished under the confirm budget
}

// Prop is one registered property.
type Prop struct {
	ID    string
	Rule  string                      // how cases are generated and what makes one non-trivial
	Gen   func(d *gen.D) interface{}  // draws a materialised, JSON-serialisable case
	New   func() interface{}          // empty case for decoding a replay file
	Check func(c interface{}) Outcome // runs the library (in the worker) and the oracle
}

var Props = map[string]*Prop{}

func register(p *Prop) { Props[p.ID] = p }

// ---- environment -------------------------------------------------------------------------

func envInt(k string, def int) int {
	if v := os.Getenv(k); v != "" {
		if n, err := strconv.Atoi(v); err == nil {
			return n
		}
	}
	return def
}

var (
	Tier    = envOr("VERIF_TIER", "quick")
	Confirm = os.Getenv("VERIF_CONFIRM") != "" // replay mode: hangs get the long CPU budget
)

func envOr(k, def string) string {
	if v := os.Getenv(k); v != "" {
		return v
	}
	return def
}

func Thorough() bool { return Tier == "thorough" }

// MaxDepth of generated schemas: 3 quick, 4 thorough.
func MaxDepth() int {
	if Thorough() {
		return envInt("VERIF_DEPTH", 4)
	}
	return envInt("VERIF_DEPTH", 3)
}

// ---- worker ------------------------------------------------------------------------------

var (
	clientMu sync.Mutex
	client   *wproto.Client
	raceCli  *wproto.Client
)

func worker() *wproto.Client {
	clientMu.Lock()
	defer clientMu.Unlock()
	if client == nil {
		client = &wproto.Client{Path: envOr("VERIF_WORKER", "/verif/.build/worker")}
	}
	return client
}

func raceWorker() *wproto.Client {
	clientMu.Lock()
	defer clientMu.Unlock()
	if raceCli == nil {
		raceCli = &wproto.Client{Path: envOr("VERIF_WORKER_RACE", "/verif/.build/worker-race")}
	}
	return raceCli
}

const confirmCPUMs = 30000

// call runs one request; a hang under the search budget is re-run with the confirm budget when
// in confirm mode or before the first failure of a search. Returns (resp, crash, slow, harnessErr).
func call(cl *wproto.Client, req *wproto.Request) (*wproto.Response, string, bool, error) {
	resp, crash, err := cl.Call(req)
	if err != nil {
		return nil, "", false, err
	}
	// The long budget is also granted during the search itself, until a failure has been seen (after that rapid
	// is shrinking, and shrinking a genuine hang with 30 s per attempt would never end): a case which is merely
	// slow is journalled as "slow" and the shard goes on.
	if strings.HasPrefix(crash, "hang") && (Confirm || !sawFailure) {
		r2 := *req
		r2.CPUMs = confirmCPUMs
		resp2, crash2, err := cl.Call(&r2)
		if err != nil {
			return nil, "", false, err
		}
		if crash2 == "" {
			return resp2, "", true, nil // slow, but terminates
		}
		return nil, crash2 + fmt.Sprintf(" (confirmed with %d s CPU)", confirmCPUMs/1000), false, nil
	}
	return resp, crash, false, nil
}

// ---- journal -----------------------------------------------------------------------------

type journalLine struct {
	H      string          `json:"h"`
	Out    string          `json:"out"` // pass | fail | vacuous | known:<id> | harness | slow
	NT     bool            `json:"nt,omitempty"`
	Labels []string        `json:"labels,omitempty"`
	Msg    string          `json:"msg,omitempty"`
	Sample json.RawMessage `json:"sample,omitempty"`
	Extra  map[string]int  `json:"extra,omitempty"`
}

type journal struct {
	mu      sync.Mutex
	f       *os.File
	samples int
}

var jr = &journal{}

func (j *journal) write(l *journalLine) {
	j.mu.Lock()
	defer j.mu.Unlock()
	if j.f == nil {
		p := os.Getenv("VERIF_JOURNAL")
		if p == "" {
			return
		}
		f, err := os.OpenFile(p, os.O_CREATE|os.O_WRONLY|os.O_APPEND, 0o644)
		if err != nil {
			return
		}
		j.f = f
	}
	b, _ := json.Marshal(l)
	_, _ = j.f.Write(append(b, '\n'))
}

// extraCounters lets checks report additional measured numbers (fault points, library calls...).
var extraCounters = map[string]int{}

func count(k string, n int) { extraCounters[k] += n }

// ---- known findings ------------------------------------------------------------------------

type openFinding struct {
	ID         string   `json:"id"`
	Properties []string `json:"properties"`
	What       string   `json:"what"`
	Classifier string   `json:"classifier"`
	Witness    string   `json:"witness"`
	Switches   []string `json:"switches,omitempty"` // generator switches that exclude the class while the finding is open
}

type knownFindings struct {
	Open  []openFinding `json:"open"`
	Fixed []string      `json:"fixed"`
}

var (
	known     knownFindings
	knownOnce sync.Once
)

// Classifiers recognise the root cause of an open finding from (property, case, failure text).
var Classifiers = map[string]func(prop string, c interface{}, fail string) bool{}

func loadKnown() {
	knownOnce.Do(func() {
		b, err := os.ReadFile(envOr("VERIF_KNOWN", "/verif/known_findings.json"))
		if err != nil {
			return
		}
		_ = json.Unmarshal(b, &known)
	})
}

func classify(prop string, c interface{}, fail string) string {
	loadKnown()
	for _, f := range known.Open {
		applies := false
		for _, p := range f.Properties {
			applies = applies || p == prop
		}
		if !applies {
			continue
		}
		if cl := Classifiers[f.Classifier]; cl != nil && cl(prop, c, fail) {
			return f.ID
		}
	}
	return ""
}

// ---- search --------------------------------------------------------------------------------

var sawFailure bool

const kRepeat = 12

// checkRepeated runs the check; once any failure has been seen in this process every execution
// runs the library kRepeat times, so that failures that depend on Go's map iteration order are
// reproduced reliably while rapid re-runs and shrinks them.
func checkRepeated(p *Prop, c interface{}) Outcome {
	out := p.Check(c)
	if out.Fail != "" || out.Harness != "" || !sawFailure {
		return out
	}
	for i := 1; i < kRepeat; i++ {
		o := p.Check(c)
		if o.Fail != "" || o.Harness != "" {
			return o
		}
	}
	return out
}

type replayFile struct {
	Property string          `json:"property"`
	Failure  string          `json:"failure"`
	Case     json.RawMessage `json:"case"`
}

func writeReplay(id string, c interface{}, fail string, first bool) string {
	dir := envOr("VERIF_REPLAY_DIR", "/verif/replays/"+id)
	_ = os.MkdirAll(dir, 0o755)
	name := "shard" + envOr("VERIF_SHARD", "0")
	if first {
		name += ".first"
	}
	p := filepath.Join(dir, name+".json")
	cb, _ := json.Marshal(c)
	b, _ := json.MarshalIndent(replayFile{Property: id, Failure: fail, Case: cb}, "", " ")
	_ = os.WriteFile(p, b, 0o644)
	return p
}

// search is the body of TestCxx: rapid draws cases, the check decides them, everything is journalled.
func search(t *testing.T, id string) {
	p := Props[id]
	if p == nil {
		t.Fatalf("HARNESS: property %s not registered", id)
	}
	firstWritten := false
	rapid.Check(t, func(rt *rapid.T) {
		d := gen.NewD(rt)
		c := p.Gen(d)
		out := checkRepeated(p, c)
		line := &journalLine{H: Hash(c), NT: out.NT, Labels: append(out.Labels, d.LabelList()...)}
		if len(extraCounters) > 0 {
			line.Extra = extraCounters
			extraCounters = map[string]int{}
		}
		switch {
		case out.Harness != "":
			line.Out, line.Msg = "harness", out.Harness
			jr.write(line)
			rt.Fatalf("HARNESS: %s", out.Harness)
		case out.Fail != "":
			if k := classify(id, c, out.Fail); k != "" {
				line.Out, line.Msg = "known:"+k, Trunc(out.Fail, 300)
				jr.write(line)
				return
			}
			sawFailure = true
			line.Out, line.Msg = "fail", Trunc(out.Fail, 2000)
			jr.write(line)
			if !firstWritten {
				firstWritten = true
				writeReplay(id, c, out.Fail, true)
			}
			path := writeReplay(id, c, out.Fail, false)
			rt.Fatalf("%s violated: %s\nreplay: %s", id, out.Fail, path)
		case out.Slow:
			line.Out = "slow"
		case out.Vacuous:
			line.Out = "vacuous"
		default:
			line.Out = "pass"
		}
		if out.NT && jr.samples < 3 {
			jr.samples++
			cb, _ := json.Marshal(c)
			line.Sample, _ = json.Marshal(Trunc(string(cb), 2500))
		}
		jr.write(line)
	})
}

// ---- replay ----------------------------------------------------------------------------------

type replayResult struct {
	File     string         `json:"file"`
	Property string         `json:"property"`
	Runs     int            `json:"runs"`
	Fails    int            `json:"fails"`
	Failure  string         `json:"failure,omitempty"`
	Known    string         `json:"known,omitempty"`
	Harness  string         `json:"harness,omitempty"`
	Slow     bool           `json:"slow,omitempty"`
	Hist     map[string]int `json:"hist,omitempty"`
}

// TestReplay re-executes saved cases through the same check functions, without rapid.
// VERIF_REPLAY_FILES: colon-separated files; VERIF_REPLAY_RUNS: executions per file (stops at the
// first failure unless VERIF_REPLAY_ALL is set); VERIF_REPLAY_OUT: JSON-lines results.
func replayMain(t *testing.T) {
	files := strings.Split(os.Getenv("VERIF_REPLAY_FILES"), ":")
	runs := envInt("VERIF_REPLAY_RUNS", 1)
	all := os.Getenv("VERIF_REPLAY_ALL") != ""
	var out *os.File
	if p := os.Getenv("VERIF_REPLAY_OUT"); p != "" {
		out, _ = os.Create(p)
		defer out.Close()
	}
	for _, f := range files {
		if f == "" {
			continue
		}
		res := replayResult{File: f}
		b, err := os.ReadFile(f)
		var rf replayFile
		if err == nil {
			err = json.Unmarshal(b, &rf)
		}
		if override := os.Getenv("VERIF_REPLAY_PROP"); override != "" {
			rf.Property = override
		}
		p := Props[rf.Property]
		if err != nil || p == nil {
			res.Harness = fmt.Sprintf("cannot read replay file (%v) or unknown property %q", err, rf.Property)
		} else {
			res.Property = p.ID
			c := p.New()
			if err := json.Unmarshal(rf.Case, c); err != nil {
				res.Harness = "cannot decode case: " + err.Error()
			} else {
				for i := 0; i < runs; i++ {
					res.Runs++
					o := p.Check(c)
					if o.Harness != "" {
						res.Harness = o.Harness
						break
					}
					res.Slow = res.Slow || o.Slow
					if o.Fail != "" {
						if all {
							if res.Hist == nil {
								res.Hist = map[string]int{}
							}
							first := o.Fail
							if i := strings.IndexByte(first, '\n'); i >= 0 {
								first = first[:i]
							}
							res.Hist[Trunc(first, 260)]++
						}
						res.Fails++
						if res.Failure == "" {
							res.Failure = o.Fail
							res.Known = classify(p.ID, c, o.Fail)
						}
						if !all || strings.Contains(o.Fail, "hang(") {
							break
						}
					}
				}
			}
		}
		jb, _ := json.Marshal(res)
		if out != nil {
			_, _ = out.Write(append(jb, '\n'))
		}
		t.Logf("%s", jb)
	}
}

func sortedSet(m map[string]bool) []string {
	out := make([]string, 0, len(m))
	for k, v := range m {
		if v {
			out = append(out, k)
		}
	}
	sort.Strings(out)
	return out
}
