package props

import (
	"strings"

	"verif/harness/gen"
)

// applyKnownSwitches narrows the generator by construction for every open known finding (its
// "switches"), so that a shallow open defect does not end every campaign at once. The driver
// reports which switches were active in the evidence.
func applyKnownSwitches(cfg *gen.BundleCfg) {
	loadKnown()
	for _, f := range known.Open {
		for _, s := range f.Switches {
			switch {
			case strings.HasPrefix(s, "Exclude:"):
				if cfg.Exclude == nil {
					cfg.Exclude = map[string]bool{}
				}
				cfg.Exclude[strings.TrimPrefix(s, "Exclude:")] = true
			case s == "NoOplessPathParams":
				cfg.NoOplessPathParams = true
			case s == "NoExpandCollidingCyc":
				cfg.NoExpandCollidingCyc = true
			case s == "NoKeywordPropsInFull":
				cfg.NoKeywordPropsInFull = true
			case s == "NoCollisions":
				cfg.NoCollisions = true
			case s == "NoKeepNames":
				cfg.NoKeepNames = true
			case s == "NoSharedSchemaPtrs":
				cfg.NoSharedSchemaPtrs = true
			}
		}
	}
}
