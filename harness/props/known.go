package props

import (
	"encoding/json"
	"fmt"
	"strings"

	"verif/harness/gen"

	"github.com/go-openapi/spec"
)

// applyKnownSwitches narrows the generator by construction for every open known finding (its
// "switches"), so that a shallow open defect does not end every campaign at once. The driver
// reports which switches were active in the evidence.
func applyKnownSwitches(cfg *gen.BundleCfg) {
	loadKnown()
	for _, f := range known.Open {
		for _, s := range f.Switches {
			switch {
			case strings.HasPrefix(s, "Exclude:"):
				if cfg.Exclude == nil {
					cfg.Exclude = map[string]bool{}
				}
				cfg.Exclude[strings.TrimPrefix(s, "Exclude:")] = true
			case s == "NoOplessPathParams":
				cfg.NoOplessPathParams = true
			case s == "NoExpandCollidingCyc":
				cfg.NoExpandCollidingCyc = true
			case s == "NoKeywordPropsInFull":
				cfg.NoKeywordPropsInFull = true
			case s == "NoCollisions":
				cfg.NoCollisions = true
			case s == "NoCollisionsInFull":
				cfg.NoCollisionsInFull = true
			case s == "NoKeepNames":
				cfg.NoKeepNames = true
			case s == "NoSharedSchemaPtrs":
				cfg.NoSharedSchemaPtrs = true
			case s == "KeepNamesPlainOnly":
				cfg.KeepNamesPlainOnly = true
			case s == "NoPunctOnlyLocalNames":
				cfg.NoPunctOnlyLocalNames = true
			case s == "NoOAIGenNamedAliases":
				cfg.NoOAIGenNamedAliases = true
			}
		}
	}
}

// ---- classifiers of open known findings -------------------------------------------------------

func init() {
	// KeepNames keeps created names unmangled; names are then built from URL-escaped $ref strings and
	// spliced unescaped into '#/definitions/<name>' paths: definition or property names that need URL
	// or JSON-pointer escaping yield definitions stored under a key the $ref does not decode to.
	Classifiers["keepnames-escaping"] = func(prop string, c interface{}, fail string) bool {
		fc, ok := c.(*gen.FlattenCase)
		if !ok || !fc.Opts.KeepNames {
			return false
		}
		f := bundleFeatures(fc)
		if f.ptrEscNames+f.urlEscNames == 0 {
			return false
		}
		return strings.Contains(fail, "no key") || strings.Contains(fail, "JSON pointer error") || strings.Contains(fail, "dangling")
	}
	// analysis.Schema on {"$ref": "#/definitions/x/<keyword>"} where x has no such keyword: the pointer
	// resolves to a typed nil (*SchemaOrBool, *SchemaOrArray, *Schema) inside go-openapi/spec, whose
	// resolver then marshals it: panic inside the dependency.
	Classifiers["spec-typed-nil-pointer-target"] = func(prop string, c interface{}, fail string) bool {
		return strings.Contains(fail, "panic in Schema") && strings.Contains(fail, "called using nil *")
	}
	// spec.ExpandSpec itself (go-openapi/spec, outside this repository) fails on the bundle: a remote
	// reference cycle reached from documents in two different directories is rebased twice.
	Classifiers["spec-expandspec-fails"] = func(prop string, c interface{}, fail string) bool {
		fc, ok := c.(*gen.FlattenCase)
		if !ok || !fc.Opts.Expand || !strings.Contains(fail, "no such document") {
			return false
		}
		// whether spec.ExpandSpec trips depends on map iteration order (about one run in two on the witness)
		for i := 0; i < 40; i++ {
			if specExpandFails(fc) {
				return true
			}
		}
		return false
	}
}

// specExpandFails runs go-openapi/spec's own full expansion on the bundle, in this process.
func specExpandFails(c *gen.FlattenCase) bool {
	docs := docsText(c, 0)
	saved := spec.PathLoader
	defer func() { spec.PathLoader = saved }()
	spec.PathLoader = func(p string) (json.RawMessage, error) {
		p = strings.TrimPrefix(p, "file://")
		if b, ok := docs[p]; ok {
			return json.RawMessage(b), nil
		}
		return nil, fmt.Errorf("vfs: no such document %s", p)
	}
	var sw spec.Swagger
	if err := json.Unmarshal([]byte(docs[c.RootPath()]), &sw); err != nil {
		return false
	}
	failed := false
	func() {
		defer func() {
			if r := recover(); r != nil {
				failed = true
			}
		}()
		failed = spec.ExpandSpec(&sw, &spec.ExpandOptions{RelativeBase: c.RootPath()}) != nil
	}()
	return failed
}
