package props

import (
	"encoding/json"
	"fmt"
	"os"
	"regexp"
	"sort"
	"strings"
	"testing"
)

// TestMinimise greedily deletes object members / array elements of a saved case while the check
// still fails (each candidate is executed up to VERIF_MIN_RUNS times, so order-dependent failures
// survive), and writes the result next to the input. Development aid for failures rapid could not
// shrink well; not used by the registered checks.
func TestMinimise(t *testing.T) {
	in := os.Getenv("VERIF_MINIMISE")
	if in == "" {
		t.Skip()
	}
	runs := envInt("VERIF_MIN_RUNS", 30)
	b, err := os.ReadFile(in)
	if err != nil {
		t.Fatal(err)
	}
	var rf replayFile
	if err := json.Unmarshal(b, &rf); err != nil {
		t.Fatal(err)
	}
	if o := os.Getenv("VERIF_REPLAY_PROP"); o != "" {
		rf.Property = o
	}
	p := Props[rf.Property]
	var cur interface{}
	_ = json.Unmarshal(rf.Case, &cur)
	fails := func(v interface{}) (string, bool) {
		raw, _ := json.Marshal(v)
		c := p.New()
		if json.Unmarshal(raw, c) != nil {
			return "", false
		}
		for i := 0; i < runs; i++ {
			o := p.Check(c)
			if o.Harness != "" {
				return "", false
			}
			if o.Fail != "" {
				return o.Fail, true
			}
		}
		return "", false
	}
	msg, ok := fails(cur)
	if !ok {
		t.Fatalf("case does not fail")
	}
	want := failureClass(msg)
	still := func(v interface{}) bool {
		m, ok := fails(v)
		return ok && failureClass(m) == want
	}
	changed := true
	for changed {
		changed = false
		var walk func(get func() interface{}, set func(interface{}))
		walk = func(get func() interface{}, set func(interface{})) {
			switch x := get().(type) {
			case map[string]interface{}:
				keys := make([]string, 0, len(x))
				for k := range x {
					keys = append(keys, k)
				}
				sort.Strings(keys)
				for _, k := range keys {
					if protectedKeys[k] {
						continue
					}
					saved := x[k]
					delete(x, k)
					if still(cur) {
						changed = true
						continue
					}
					x[k] = saved
					k := k
					walk(func() interface{} { return x[k] }, func(v interface{}) { x[k] = v })
				}
			case []interface{}:
				for i := 0; i < len(x); i++ {
					cand := append(append([]interface{}{}, x[:i]...), x[i+1:]...)
					set(cand)
					if still(cur) {
						changed = true
						x = cand
						i--
						continue
					}
					set(x)
					i := i
					walk(func() interface{} { return x[i] }, func(v interface{}) { x[i] = v })
				}
			}
		}
		walk(func() interface{} { return cur }, func(v interface{}) { cur = v })
	}
	msg, _ = fails(cur)
	raw, _ := json.Marshal(cur)
	out, _ := json.MarshalIndent(replayFile{Property: rf.Property, Failure: msg, Case: raw}, "", " ")
	dst := in + ".min.json"
	_ = os.WriteFile(dst, out, 0o644)
	fmt.Println("minimised:", dst, len(raw), "bytes")
}

// protectedKeys are never deleted: without them a document leaves the generated class (a body
// parameter without "in", a document without "swagger", ...).
var protectedKeys = map[string]bool{"in": true, "name": true, "swagger": true, "info": true, "title": true, "version": true, "dir": true, "description": true, "opts": true, "type": true, "paths": true}

// failureClass abstracts a failure message to its shape: first line, quoted strings and digits
// removed, 200 characters. Enough to keep the minimiser on the same root cause.
func failureClass(msg string) string {
	if i := strings.IndexByte(msg, '\n'); i >= 0 {
		msg = msg[:i]
	}
	msg = quoted.ReplaceAllString(msg, "Q")
	out := []rune{}
	for _, r := range msg {
		if len(out) >= 200 {
			break
		}
		if r < '0' || r > '9' {
			out = append(out, r)
		}
	}
	return string(out)
}

var quoted = regexp.MustCompile(`"[^"]*"|#/\S+|/vfs/\S+`)
