package props

import (
	"encoding/json"
	"fmt"
	"regexp"
	"sort"
	"strings"

	"verif/harness/gen"
	. "verif/harness/jsonx"
	"verif/harness/oracle"
	"verif/harness/wproto"

	"github.com/go-openapi/spec"
)

// normalForm passes a document through the spec model (trusted dependency) once.
func normalForm(doc O) (O, error) {
	var sw spec.Swagger
	if err := json.Unmarshal(Marshal(doc), &sw); err != nil {
		return nil, err
	}
	b, err := json.Marshal(&sw)
	if err != nil {
		return nil, err
	}
	return Obj(Parse(b)), nil
}

// ---- C17 / C18 Mixin -----------------------------------------------------------------------------

func checkMixin(id string, c *gen.MixinCase) Outcome {
	out := Outcome{}
	req := &wproto.Request{Op: "mixin", Primary: string(Marshal(c.Primary))}
	pn, err := normalForm(c.Primary)
	if err != nil {
		out.Harness = "generated primary does not load: " + err.Error()
		return out
	}
	var mn []O
	for _, m := range c.Mixins {
		req.Mixins = append(req.Mixins, string(Marshal(m)))
		n, err := normalForm(m)
		if err != nil {
			out.Harness = "generated mixin does not load: " + err.Error()
			return out
		}
		mn = append(mn, n)
	}
	count("library_calls", 1)
	resp, crash, _, herr := call(worker(), req)
	if herr != nil {
		out.Harness = herr.Error()
		return out
	}
	dump := func() string {
		s := "\n  primary: " + Trunc(string(Marshal(c.Primary)), 1500)
		for i, m := range c.Mixins {
			s += fmt.Sprintf("\n  mixin %d: %s", i, Trunc(string(Marshal(m)), 1200))
		}
		return s
	}
	if resp != nil && resp.LoadErr != "" {
		out.Harness = "generated document does not load: " + resp.LoadErr
		return out
	}
	// collisions / fills for the non-triviality rule and labels
	want, wantColl := oracle.MixinModel(pn, mn)
	if wantColl > 0 {
		out.Labels = append(out.Labels, "collision")
	}
	filled := !Equal(J(oracle.NormTop(Obj(Clone(want)))), J(oracle.NormTop(Obj(Clone(pn)))))
	if filled {
		out.Labels = append(out.Labels, "filled-from-mixin")
	}
	idColl := 0
	seenIDs := map[string]bool{}
	for _, t := range oracle.OperationIDs(pn) {
		if t[2] != "" {
			seenIDs[t[2]] = true
		}
	}
	for _, m := range mn {
		for _, t := range oracle.OperationIDs(m) {
			if t[2] != "" && seenIDs[t[2]] {
				idColl++
				out.Labels = append(out.Labels, "id-collision:"+t[1])
			}
		}
		for _, t := range oracle.OperationIDs(m) {
			if t[2] != "" {
				seenIDs[t[2]] = true
			}
		}
	}
	if id == "C17" {
		out.NT = (wantColl > 0 && filled) || len(c.Mixins) > 0
	} else {
		out.NT = idColl > 0
	}
	if crash != "" || resp.Panic != "" {
		out.NT = true
		if id == "C17" {
			out.Fail = fmt.Sprintf("Mixin did not return normally: %s%s%s", crash, resp0(resp), dump())
		} else {
			out.Vacuous = true // C17 owns "never panics"
		}
		return out
	}
	got := oracle.NormTop(Obj(Parse([]byte(resp.After))))
	want = oracle.NormTop(want)
	if id == "C17" {
		// which <N> a colliding operation id receives is C18's business ("by appending 'Mixin<N>'"), and N is not
		// specified: ids renamed by the model are compared up to N
		alignRenamedIDs(got, want)
		if !Equal(J(got), J(want)) {
			out.NT = true
			out.Fail = fmt.Sprintf("merged document differs from the documented merge rules:\n  got : %s\n  want: %s%s", Trunc(string(Marshal(got)), 2500), Trunc(string(Marshal(want)), 2500), dump())
			return out
		}
		if len(resp.Warnings) != wantColl {
			out.NT = true
			out.Fail = fmt.Sprintf("Mixin returned %d warnings for %d key collisions: %q%s", len(resp.Warnings), wantColl, resp.Warnings, dump())
			return out
		}
		return out
	}
	// C18: ids unique; renamed only on collision; id-less stay id-less. Evaluated on the merged
	// document against the inputs, independently of the full model.
	seen := map[string]string{}
	for _, t := range oracle.OperationIDs(got) {
		if t[2] == "" {
			continue
		}
		if prev, dup := seen[t[2]]; dup {
			out.NT = true
			out.Fail = fmt.Sprintf("operation id %q appears twice in the merged document (%s and %s %s)%s", t[2], prev, t[1], t[0], dump())
			return out
		}
		seen[t[2]] = t[1] + " " + t[0]
	}
	// every operation that came from mixin i keeps its id or gets idMixin<i>, the latter only on a collision
	present := map[string]bool{}
	for _, t := range oracle.OperationIDs(pn) {
		if t[2] != "" {
			present[t[2]] = true
		}
	}
	gotPaths := Obj(got["paths"])
	taken := map[string]bool{}
	for p := range Obj(pn["paths"]) {
		taken[p] = true
	}
	for i, m := range mn {
		for _, p := range SortedKeys(Obj(m["paths"])) {
			if taken[p] {
				continue // path collision: the mixin's path item is skipped as a whole
			}
			taken[p] = true
			for _, meth := range oracle.Methods {
				op := Obj(Obj(Obj(m["paths"])[p])[meth])
				if op == nil {
					continue
				}
				orig := Str(op["operationId"])
				merged := Str(Obj(Obj(gotPaths[p])[meth])["operationId"])
				switch {
				case orig == "" && merged != "":
					out.Fail = fmt.Sprintf("operation %s %s of mixin %d had no operationId and got %q", meth, p, i, merged)
				case orig != "" && present[orig] && !isMixinRename(orig, merged):
					out.Fail = fmt.Sprintf("operation %s %s of mixin %d: id %q collides with an earlier one and should become %q, got %q", meth, p, i, orig, orig+"Mixin<N>", merged)
				case orig != "" && !present[orig] && merged != orig:
					out.Fail = fmt.Sprintf("operation %s %s of mixin %d: id %q does not collide but was changed to %q", meth, p, i, orig, merged)
				}
				if out.Fail != "" {
					out.NT = true
					out.Fail += dump()
					return out
				}
				if merged != "" {
					present[merged] = true
				}
			}
		}
	}
	return out
}

var mixinSuffix = regexp.MustCompile(`^Mixin[0-9]+$`)

// isMixinRename: merged is orig + "Mixin<N>" for some number N (the property does not say which).
func isMixinRename(orig, merged string) bool {
	return strings.HasPrefix(merged, orig) && mixinSuffix.MatchString(strings.TrimPrefix(merged, orig))
}

// alignRenamedIDs rewrites, in got, every operation id which differs from the model's only by the number N of
// its "Mixin<N>" suffix to the model's id.
func alignRenamedIDs(got, want O) {
	base := regexp.MustCompile(`^(.*)Mixin[0-9]+$`)
	for p, wi := range Obj(want["paths"]) {
		for _, meth := range oracle.Methods {
			wop, gop := Obj(Obj(wi)[meth]), Obj(Obj(Obj(got["paths"])[p])[meth])
			if wop == nil || gop == nil {
				continue
			}
			w, g := Str(wop["operationId"]), Str(gop["operationId"])
			if w == g {
				continue
			}
			if mw, mg := base.FindStringSubmatch(w), base.FindStringSubmatch(g); mw != nil && mg != nil && mw[1] == mg[1] {
				gop["operationId"] = w
			}
		}
	}
}

func resp0(r *wproto.Response) string {
	if r == nil {
		return ""
	}
	return r.Panic
}

func init() {
	const mixinRule = "rapid draws a primary and 0..3 mixin documents over small key pools (paths, definitions, parameters, responses, security definitions, tags, security requirements, consumes/produces/schemes, extensions at top/info/contact/license level) with every optional part (info, contact, license, externalDocs, paths) independently present or absent on each side; distinct = distinct SHA-256 of the case; "
	register(&Prop{
		ID:    "C17",
		Rule:  mixinRule + "non-trivial = at least one mixin; oracle = executable reference model of the documented merge rules (merged document modulo empty==absent, warning count = collision count), no panic",
		Gen:   func(d *gen.D) interface{} { return gen.GenMixinCase(d, gen.MixinCfg{}) },
		New:   func() interface{} { return new(gen.MixinCase) },
		Check: func(c interface{}) Outcome { return checkMixin("C17", c.(*gen.MixinCase)) },
	})
	register(&Prop{
		ID:    "C18",
		Rule:  mixinRule + "operation ids unique per document drawn from one small pool so that primary<->mixin and mixin<->mixin collisions occur under every method, plus id-less operations; non-trivial = at least one id collision; oracle = all non-empty ids of the merged document pairwise distinct, an id is renamed to <id>Mixin<N> (any number N) iff it collides, id-less operations stay id-less",
		Gen:   func(d *gen.D) interface{} { return gen.GenMixinCase(d, gen.MixinCfg{IDFocus: true}) },
		New:   func() interface{} { return new(gen.MixinCase) },
		Check: func(c interface{}) Outcome { return checkMixin("C18", c.(*gen.MixinCase)) },
	})
}

// ---- C19 fixer ------------------------------------------------------------------------------------

func checkC19(c *gen.APICase) Outcome {
	out := Outcome{}
	req := &wproto.Request{Op: "fixer", Docs: map[string]string{"/vfs/doc.json": string(Marshal(c.Doc))}, RootPath: "/vfs/doc.json"}
	count("library_calls", 1)
	resp, crash, _, err := call(worker(), req)
	if err != nil {
		out.Harness = err.Error()
		return out
	}
	doc := "\n  doc: " + Trunc(string(Marshal(c.Doc)), 2500)
	if crash != "" {
		out.NT, out.Fail = true, "FixEmptyResponseDescriptions did not return: worker "+crash+doc
		return out
	}
	if resp.LoadErr != "" {
		out.Harness = "generated document does not load: " + resp.LoadErr
		return out
	}
	for _, l := range c.GenLabels {
		if l == "op:no-responses" || l == "no-paths" {
			out.NT = true
		}
	}
	if resp.Panic != "" {
		out.NT, out.Fail = true, "panic in "+resp.Panic+doc
		return out
	}
	before := Obj(Parse([]byte(resp.Before)))
	want := oracle.FixerModel(before)
	got := Obj(Parse([]byte(resp.After)))
	filled, untouched := !Equal(J(want), J(before)), false
	v := &oracle.Visitor{Response: func(l oracle.Loc, r O, where string) {
		if _, isRef := r["$ref"]; isRef || Str(r["description"]) != "" {
			untouched = true
		}
	}}
	oracle.WalkSwagger("", before, v)
	if filled {
		out.Labels = append(out.Labels, "filled")
	}
	if filled && untouched {
		out.NT = true
	}
	if !Equal(J(got), J(want)) {
		out.NT = true
		out.Fail = fmt.Sprintf("after the call the document is not 'before' with (empty) added exactly at non-$ref responses without description:\n  got : %s\n  want: %s", Trunc(resp.After, 2500), Trunc(string(Marshal(want)), 2500))
		return out
	}
	if resp.After2 != resp.After {
		out.NT = true
		out.Fail = fmt.Sprintf("a second call changed the document:\n  1st: %s\n  2nd: %s", Trunc(resp.After, 2000), Trunc(resp.After2, 2000))
	}
	return out
}

func init() {
	register(&Prop{
		ID:   "C19",
		Rule: apiRule + "responses are drawn inline-with-description, inline-without, $ref to a shared response or arbitrary $ref, at shared/default/status-code positions under all seven methods; operations without a responses object and documents without paths are included; non-trivial = at least one response filled and one left untouched, or an operation without responses / a document without paths; oracle = reference model on generic JSON, second call is the identity, no panic",
		Gen: func(d *gen.D) interface{} {
			return gen.GenAPIDoc(d, gen.APICfg{MaxDepth: 1, MaxLayer: 1, RespDesc: true})
		},
		New:   func() interface{} { return new(gen.APICase) },
		Check: func(c interface{}) Outcome { return checkC19(c.(*gen.APICase)) },
	})
}

// ---- C20 schema classification ----------------------------------------------------------------------

func checkC20(c *gen.SchemaCase) Outcome {
	out := Outcome{}
	root := O{"swagger": "2.0", "paths": O{}, "definitions": c.Defs}
	names := SortedKeys(c.Defs)
	var schemas []string
	var subjects []O
	var what []string
	add := func(s O, w string) {
		schemas = append(schemas, string(Marshal(s)))
		subjects = append(subjects, s)
		what = append(what, w)
	}
	add(c.Probe, "probe")
	for _, n := range names {
		add(Obj(c.Defs[n]), "body of "+n)
		add(O{"$ref": "#/definitions/" + n}, "$ref to "+n)
	}
	req := &wproto.Request{Op: "schema", Docs: map[string]string{"/vfs/doc.json": string(Marshal(root))}, RootPath: "/vfs/doc.json", Schemas: schemas}
	count("library_calls", len(schemas))
	resp, crash, slow, err := call(worker(), req)
	if err != nil {
		out.Harness = err.Error()
		return out
	}
	out.Slow = slow
	dump := fmt.Sprintf("\n  definitions: %s\n  probe: %s", Trunc(string(Marshal(c.Defs)), 2000), Trunc(string(Marshal(c.Probe)), 800))
	acyc, _ := oracle.BundleAcyclic(map[string]O{"/vfs/doc.json": root})
	probeAcyc, _ := oracle.BundleAcyclic(map[string]O{"/vfs/doc.json": {"definitions": c.Defs, "probe": c.Probe}})
	if !acyc {
		out.Labels = append(out.Labels, "recursive")
		for _, n := range names {
			b := Obj(c.Defs[n])
			self := "#/definitions/" + n
			if Str(b["type"]) == "array" && Str(Obj(b["items"])["$ref"]) == self {
				out.Labels = append(out.Labels, "self-array")
			}
			if Str(Obj(b["additionalProperties"])["$ref"]) == self {
				out.Labels = append(out.Labels, "self-map")
			}
		}
	}
	txt := string(Marshal(root)) + string(Marshal(c.Probe))
	out.NT = strings.Contains(txt, `"$ref"`)
	if crash != "" {
		out.NT = true
		out.Fail = "Schema did not terminate normally: worker " + crash + dump
		return out
	}
	if resp.LoadErr != "" {
		out.Harness = "generated document does not load: " + resp.LoadErr
		return out
	}
	if len(resp.Schemas) != len(schemas) {
		out.Harness = "worker answered a different number of schemas"
		return out
	}
	for i, r := range resp.Schemas {
		switch {
		case r.Panic != "":
			out.Fail = fmt.Sprintf("Schema(%s) panicked: %s", what[i], r.Panic)
		case r.Err != "":
			out.Fail = fmt.Sprintf("Schema(%s) returned an error on a schema whose $refs all resolve: %s", what[i], r.Err)
		default:
			if err := oracle.CheckCoherence(r.Flags); err != nil {
				out.Fail = fmt.Sprintf("Schema(%s): incoherent flags: %v: %v", what[i], err, flagStr(r.Flags))
			}
		}
		if out.Fail != "" {
			out.NT = true
			out.Fail += dump
			return out
		}
	}
	// $ref transparency: entries come in pairs (body, $ref) after the probe
	for i := 1; i+1 < len(resp.Schemas); i += 2 {
		if a, b := flagStr(resp.Schemas[i].Flags), flagStr(resp.Schemas[i+1].Flags); a != b {
			out.NT = true
			out.Fail = fmt.Sprintf("a schema that is only a $ref classifies differently from its target: %s -> %s but %s -> %s%s", what[i], a, what[i+1], b, dump)
			return out
		}
	}
	// documented rules, for schemas without recursion
	for i, r := range resp.Schemas {
		if (i == 0 && !probeAcyc) || (i > 0 && !acyc) {
			continue
		}
		if err := oracle.CheckRules(subjects[i], c.Defs, r.Flags); err != nil {
			out.NT = true
			out.Fail = fmt.Sprintf("Schema(%s) disagrees with the documented rules: %v; flags: %s%s", what[i], err, flagStr(r.Flags), dump)
			return out
		}
	}
	return out
}

func flagStr(f map[string]bool) string {
	var on []string
	for k, v := range f {
		if v {
			on = append(on, k)
		}
	}
	sort.Strings(on)
	return "[" + strings.Join(on, " ") + "]"
}

func init() {
	register(&Prop{
		ID: "C20",
		Rule: "rapid draws 1..4 definitions from the schema grammar (primitive, formatted, enum, empty object, object with properties / discriminator / additionalProperties, map, array with and without items, tuple with/without additionalItems, allOf, $ref; containers may refer to themselves or to each other) and a probe schema; Schema is called on the probe, on every definition body and on a bare $ref to every definition; " +
			"distinct = distinct SHA-256 of the case; non-trivial = the case contains a $ref; oracle = termination (CPU-time budget / stack cap in the worker process), no error, coherence invariants of the exported flags, $ref transparency (body vs bare $ref), and for non-recursive schemas an independent syntactic classifier of the documented rules",
		Gen:   func(d *gen.D) interface{} { return gen.GenSchemaCase(d, MaxDepth()) },
		New:   func() interface{} { return new(gen.SchemaCase) },
		Check: func(c interface{}) Outcome { return checkC20(c.(*gen.SchemaCase)) },
	})
}

// ---- C16 read-only, copy-safe, concurrent readers ------------------------------------------------------

// ConcCase: a document, per-goroutine query scripts and the number of executions of the schedule.
type ConcCase struct {
	Doc     O               `json:"doc"`
	Scripts [][]wproto.Call `json:"scripts"`
	Execs   int             `json:"execs"`
}

var zeroArg = []string{
	"AllPaths", "Operations", "OperationIDs", "OperationMethodPaths", "RequiredConsumes", "RequiredProduces", "RequiredSecuritySchemes",
	"AllDefinitions", "SchemasWithAllOf", "AllReferences", "AllRefs", "AllDefinitionReferences", "AllParameterReferences",
	"AllResponseReferences", "AllPathItemReferences", "AllItemsReferences",
	"ParameterPatterns", "HeaderPatterns", "ItemsPatterns", "SchemaPatterns", "AllPatterns",
	"ParameterEnums", "HeaderEnums", "ItemsEnums", "SchemaEnums", "AllEnums",
}
var perOp = []string{"OperationFor", "ConsumesFor", "ProducesFor", "SecurityRequirementsFor", "SecurityDefinitionsFor", "SecurityDefinitionsForRequirements", "ParamsFor", "SafeParamsFor/continue", "SafeParamsFor/stop"}
var perID = []string{"OperationForName", "ParametersFor", "SafeParametersFor/continue", "SafeParametersFor/stop"}

func genConc(d *gen.D) *ConcCase {
	api := gen.GenAPIDoc(d, gen.APICfg{MaxDepth: 2, MaxLayer: 2, Refs: true, PatEnum: true, OpsMeta: true, Params: true})
	c := &ConcCase{Doc: api.Doc, Execs: 5}
	if Thorough() {
		c.Execs = 25
	}
	paths := append(SortedKeys(Obj(api.Doc["paths"])), "/__no_such_path__")
	ids := []string{"__no_such_operation__"}
	for _, t := range oracle.OperationIDs(api.Doc) {
		if t[2] != "" {
			ids = append(ids, t[2])
		}
	}
	n := d.Int(2, 8)
	for g := 0; g < n; g++ {
		var s []wproto.Call
		for k := d.Int(5, 40); k > 0; k-- {
			switch x := d.Int(0, 9); {
			case x < 5:
				s = append(s, wproto.Call{M: d.Pick(zeroArg)})
			case x < 8:
				s = append(s, wproto.Call{M: d.Pick(perOp), A: []string{strings.ToUpper(d.Pick(oracle.Methods)), d.Pick(paths)}})
			case x < 9:
				s = append(s, wproto.Call{M: d.Pick(perID), A: []string{d.Pick(ids)}})
			default:
				s = append(s, wproto.Call{M: "Gosched"})
			}
		}
		c.Scripts = append(c.Scripts, s)
	}
	return c
}

func checkC16(c *ConcCase) Outcome {
	out := Outcome{}
	req := &wproto.Request{Op: "conc", Docs: map[string]string{"/vfs/doc.json": string(Marshal(c.Doc))}, RootPath: "/vfs/doc.json", Scripts: c.Scripts, Execs: c.Execs, CPUMs: 20000}
	calls := 0
	methods := map[string]int{}
	for _, s := range c.Scripts {
		calls += len(s)
		seen := map[string]bool{}
		for _, k := range s {
			if !seen[k.M] {
				seen[k.M] = true
				methods[k.M]++
			}
		}
	}
	shared := false
	for _, n := range methods {
		shared = shared || n >= 2
	}
	out.NT = len(c.Scripts) >= 2 && shared
	out.Labels = append(out.Labels, fmt.Sprintf("goroutines:%d", len(c.Scripts)))
	count("concurrent_calls", calls*c.Execs)
	count("schedule_executions", c.Execs)
	resp, crash, _, err := call(raceWorker(), req)
	if err != nil {
		out.Harness = err.Error()
		return out
	}
	dump := fmt.Sprintf("\n  doc: %s\n  scripts: %s", Trunc(string(Marshal(c.Doc)), 2000), Trunc(string(mustJSON(c.Scripts)), 1500))
	switch {
	case crash != "":
		out.NT, out.Fail = true, "concurrent readers: worker "+crash+dump
	case resp.LoadErr != "":
		out.Harness = "generated document does not load: " + resp.LoadErr
	case resp.Panic != "":
		out.NT, out.Fail = true, "panic in "+resp.Panic+dump
	case len(resp.Mismatches) > 0:
		out.NT, out.Fail = true, strings.Join(resp.Mismatches, "\n  ")+dump
	}
	return out
}

func mustJSON(v interface{}) []byte { b, _ := json.Marshal(v); return b }

func init() {
	register(&Prop{
		ID: "C16",
		Rule: apiRule + "plus N in 2..8 goroutine scripts of 5..40 calls each over all 39 public query methods (arguments from the document's methods x paths and ids, incl. misses, and Gosched points); each schedule is executed 5 (quick) / 25 (thorough) times in a worker built with -race (halt_on_error); " +
			"non-trivial = >= 2 goroutines and at least one method issued by two of them; oracle = race detector report or fatal error kills the worker, every concurrent answer equals the sequential answer computed beforehand, json.Marshal(document) identical before New / after New / after all queries, add/overwrite/delete on every map returned by the 10 pattern/enum getters does not change later answers",
		Gen:   func(d *gen.D) interface{} { return genConc(d) },
		New:   func() interface{} { return new(ConcCase) },
		Check: func(c interface{}) Outcome { return checkC16(c.(*ConcCase)) },
	})
}
