package props

import (
	"fmt"
	"testing"
)

func TestC01(t *testing.T) { search(t, "C01") }
func TestC02(t *testing.T) { search(t, "C02") }
func TestC03(t *testing.T) { search(t, "C03") }
func TestC04(t *testing.T) { search(t, "C04") }
func TestC05(t *testing.T) { search(t, "C05") }
func TestC06(t *testing.T) { search(t, "C06") }

// TestRule prints the generation / non-triviality rule of a property (used by the driver for evidence).
func TestRule(t *testing.T) {
	if p := Props[envOr("VERIF_RULE_OF", "")]; p != nil {
		fmt.Println("RULE: " + p.Rule)
	}
}

func TestReplay(t *testing.T) { replayMain(t) }

func TestC07(t *testing.T) { search(t, "C07") }
func TestC08(t *testing.T) { search(t, "C08") }
func TestC09(t *testing.T) { search(t, "C09") }
func TestC10(t *testing.T) { search(t, "C10") }

func TestC11(t *testing.T) { search(t, "C11") }
func TestC12(t *testing.T) { search(t, "C12") }
func TestC13(t *testing.T) { search(t, "C13") }
func TestC14(t *testing.T) { search(t, "C14") }
func TestC15(t *testing.T) { search(t, "C15") }

func TestC16(t *testing.T) { search(t, "C16") }
func TestC17(t *testing.T) { search(t, "C17") }
func TestC18(t *testing.T) { search(t, "C18") }
func TestC19(t *testing.T) { search(t, "C19") }
func TestC20(t *testing.T) { search(t, "C20") }
