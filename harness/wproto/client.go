package wproto

import (
	"bufio"
	"fmt"
	"io"
	"os"
	"os/exec"
	"strings"
	"sync"
	"time"
)

// Client supervises one worker process and restarts it when it dies.
type Client struct {
	Path     string   // worker binary
	Env      []string // extra environment
	cmd      *exec.Cmd
	in       io.WriteCloser
	out      *bufio.Reader
	errBuf   *tailBuf
	Restarts int
	Calls    int
}

type tailBuf struct {
	mu sync.Mutex
	b  []byte
}

func (t *tailBuf) Write(p []byte) (int, error) {
	t.mu.Lock()
	defer t.mu.Unlock()
	t.b = append(t.b, p...)
	if len(t.b) > 1<<16 {
		t.b = t.b[len(t.b)-(1<<16):]
	}
	return len(p), nil
}

func (t *tailBuf) String() string { t.mu.Lock(); defer t.mu.Unlock(); return string(t.b) }

func (c *Client) start() error {
	c.cmd = exec.Command(c.Path)
	c.cmd.Env = append(append(os.Environ(), "GORACE=halt_on_error=1 exitcode=66", "GOTRACEBACK=single"), c.Env...)
	var err error
	if c.in, err = c.cmd.StdinPipe(); err != nil {
		return err
	}
	o, err := c.cmd.StdoutPipe()
	if err != nil {
		return err
	}
	c.out = bufio.NewReaderSize(o, 1<<16)
	c.errBuf = &tailBuf{}
	c.cmd.Stderr = c.errBuf
	return c.cmd.Start()
}

// Kill stops the worker (a fresh one is started by the next Call).
func (c *Client) Kill() {
	if c.cmd != nil && c.cmd.Process != nil {
		_ = c.cmd.Process.Kill()
		_ = c.cmd.Wait()
	}
	c.cmd = nil
}

// HarnessError marks failures of the machinery itself (never a property violation).
type HarnessError struct{ Msg string }

func (e *HarnessError) Error() string { return "HARNESS: " + e.Msg }

// DefaultCPUMs is the search-time CPU budget of one request.
const DefaultCPUMs = 1500

// Call sends one request. crash != "" means the worker process died while serving it (the
// classification of its stderr tail); err != nil is a harness problem.
func (c *Client) Call(req *Request) (resp *Response, crash string, err error) {
	if c.cmd == nil {
		if err := c.start(); err != nil {
			return nil, "", &HarnessError{"cannot start worker: " + err.Error()}
		}
	}
	if req.CPUMs == 0 {
		req.CPUMs = DefaultCPUMs
	}
	c.Calls++
	if err := WriteMsg(c.in, req); err != nil {
		tail := c.errBuf.String()
		c.Kill()
		c.Restarts++
		return nil, "", &HarnessError{fmt.Sprintf("write to worker: %v; stderr: %s", err, lastLines(tail, 5))}
	}
	type res struct {
		r   *Response
		err error
	}
	ch := make(chan res, 1)
	out := c.out
	go func() {
		var r Response
		e := ReadMsg(out, &r)
		ch <- res{&r, e}
	}()
	wall := time.Duration(req.CPUMs)*time.Millisecond*20 + 20*time.Second
	select {
	case r := <-ch:
		if r.err == nil {
			return r.r, "", nil
		}
		_ = c.cmd.Wait()
		tail := c.errBuf.String()
		c.cmd = nil
		c.Restarts++
		return nil, Classify(tail), nil
	case <-time.After(wall):
		c.Kill()
		c.Restarts++
		return nil, "", &HarnessError{"wall-clock backstop exceeded (inconclusive)"}
	}
}

// Classify names the way a worker died from its stderr tail.
func Classify(tail string) string {
	switch {
	case strings.Contains(tail, "stack overflow"), strings.Contains(tail, "goroutine stack exceeds"):
		return "stack-overflow"
	case strings.Contains(tail, "VERIF-HANG"):
		return "hang(cpu-budget)"
	case strings.Contains(tail, "DATA RACE"):
		return "race: " + raceSummary(tail)
	case strings.Contains(tail, "fatal error:"):
		i := strings.Index(tail, "fatal error:")
		j := strings.IndexByte(tail[i:], '\n')
		if j < 0 {
			j = len(tail) - i
		}
		return tail[i : i+j]
	case strings.Contains(tail, "cannot allocate memory"), strings.Contains(tail, "out of memory"):
		return "oom"
	default:
		return "died: " + lastLines(tail, 6)
	}
}

func raceSummary(tail string) string {
	var fns []string
	lines := strings.Split(tail, "\n")
	for i, l := range lines {
		if (strings.HasPrefix(l, "Write at") || strings.HasPrefix(l, "Read at") || strings.HasPrefix(l, "Previous write at") || strings.HasPrefix(l, "Previous read at")) && i+1 < len(lines) {
			fns = append(fns, strings.TrimSpace(strings.SplitN(l, " by ", 2)[0])+" in "+strings.TrimSpace(lines[i+1]))
		}
	}
	return strings.Join(fns, "; ")
}

func lastLines(s string, n int) string {
	ls := strings.Split(strings.TrimSpace(s), "\n")
	if len(ls) > n {
		ls = ls[len(ls)-n:]
	}
	return strings.Join(ls, " | ")
}
