// Package wproto is the protocol between the property process (generator + oracle + rapid) and the
// worker process that runs the code under test, plus the supervising client.
package wproto

import (
	"encoding/binary"
	"encoding/json"
	"io"
)

type FlattenOpts struct {
	Minimal         bool `json:"minimal,omitempty"`
	Expand          bool `json:"expand,omitempty"`
	RemoveUnused    bool `json:"removeUnused,omitempty"`
	KeepNames       bool `json:"keepNames,omitempty"`
	ContinueOnError bool `json:"continueOnError,omitempty"`
}

func (o FlattenOpts) String() string {
	s := "full"
	switch {
	case o.Minimal:
		s = "minimal"
	case o.Expand:
		s = "expand"
	}
	if o.RemoveUnused {
		s += "+removeUnused"
	}
	if o.KeepNames {
		s += "+keepNames"
	}
	if o.ContinueOnError {
		s += "+continueOnError"
	}
	return s
}

// Call is one public query on an analyzed Spec.
type Call struct {
	M string   `json:"m"`
	A []string `json:"a,omitempty"`
}

func (c Call) Key() string {
	k := c.M
	for _, a := range c.A {
		k += "|" + a
	}
	return k
}

type Answer struct {
	Call Call            `json:"call"`
	Ans  json.RawMessage `json:"ans"`
}

type Request struct {
	Op    string `json:"op"`
	CPUMs int    `json:"cpuMs,omitempty"`

	// flatten / analyze / schema / fixer / conc: the VFS and the root document
	Docs     map[string]string `json:"docs,omitempty"` // absolute slash path -> JSON text
	RootPath string            `json:"rootPath,omitempty"`

	// flatten
	Opts        FlattenOpts `json:"opts,omitempty"`
	FaultK      int         `json:"faultK,omitempty"`      // fail the k-th document load (1-based); 0 = none
	FaultSticky bool        `json:"faultSticky,omitempty"` // ... and every later load of that document
	Dump        bool        `json:"dump,omitempty"`        // C10: answers of the passed-in Spec and of a fresh analysis
	Probe       bool        `json:"probe,omitempty"`       // C09: also run New and Schema on every schema position first

	// analyze
	Calls []Call `json:"calls,omitempty"` // extra calls besides the enumerated ones

	// schema
	Schemas []string `json:"schemas,omitempty"` // JSON text of schemas to classify against the root

	// mixin
	Primary string   `json:"primary,omitempty"`
	Mixins  []string `json:"mixins,omitempty"`

	// conc
	Scripts [][]Call `json:"scripts,omitempty"`
	Execs   int      `json:"execs,omitempty"`
}

type SchemaResult struct {
	Err   string          `json:"err,omitempty"`
	Panic string          `json:"panic,omitempty"`
	Flags map[string]bool `json:"flags,omitempty"`
}

type Response struct {
	LoadErr string `json:"loadErr,omitempty"` // the root (or a mixin) could not be unmarshalled by the spec model
	Err     string `json:"err,omitempty"`
	Panic   string `json:"panic,omitempty"` // recovered panic, prefixed with the phase
	Before  string `json:"before,omitempty"`
	After   string `json:"after,omitempty"`
	After2  string `json:"after2,omitempty"`

	Loads     int      `json:"loads,omitempty"`
	LoadTrace []string `json:"loadTrace,omitempty"`
	FaultHits int      `json:"faultHits,omitempty"` // how many loads the fault plan actually failed

	Passed []Answer `json:"passed,omitempty"` // flatten+dump: answers of the Spec handed to Flatten
	Fresh  []Answer `json:"fresh,omitempty"`  // answers of analysis.New(doc)

	ProbeErrs int `json:"probeErrs,omitempty"`

	Schemas  []SchemaResult `json:"schemas,omitempty"`
	Warnings []string       `json:"warnings,omitempty"`

	Mismatches []string `json:"mismatches,omitempty"` // conc
	CPUMs      int      `json:"cpuMs,omitempty"`
}

func WriteMsg(w io.Writer, v interface{}) error {
	b, err := json.Marshal(v)
	if err != nil {
		return err
	}
	var hdr [4]byte
	binary.BigEndian.PutUint32(hdr[:], uint32(len(b)))
	if _, err := w.Write(hdr[:]); err != nil {
		return err
	}
	_, err = w.Write(b)
	return err
}

func ReadMsg(r io.Reader, v interface{}) error {
	var hdr [4]byte
	if _, err := io.ReadFull(r, hdr[:]); err != nil {
		return err
	}
	b := make([]byte, binary.BigEndian.Uint32(hdr[:]))
	if _, err := io.ReadFull(r, b); err != nil {
		return err
	}
	return json.Unmarshal(b, v)
}
