#!/bin/bash
# One-time, offline: warms the Go build cache for the harness (plain, -race, go1.26.8 workers).
set -e
cd "$(dirname "$0")/harness"
export GOFLAGS=-mod=mod GOPROXY=off GOSUMDB=off GOTOOLCHAIN=local
mkdir -p ../.build
go build -o ../.build/worker ./cmd/worker
go test -c -o ../.build/props.test ./props
go build -race -o ../.build/worker-race ./cmd/worker
go1.26.8 build -o ../.build/worker-go126 ./cmd/worker || echo "note: go1.26.8 worker not built (only C07 thorough uses it)"
git -C /repo status --short || true
echo "setup ok"
