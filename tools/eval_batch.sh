#!/bin/bash
# usage: eval_batch.sh C17 C18 ...   evaluates /tmp/mut-<ID>/out/m*/ against the check of <ID>
cd /verif
for id in "$@"; do
  for d in /tmp/mut-$id/out/m*/; do
    m=$(basename $d)
    [ -f $d/patch.diff ] || continue
    extra=""
    if [ "$id" = "C16" ]; then extra="--race-demo"; fi
    echo "=== $id-$m"
    python3 tools/eval_mutant.py $d $id-$m $id $extra 2>&1 | grep -vE '^\s+"(name|breaks_property|repo_head|needs_to_manifest)"' | head -30
  done
done
