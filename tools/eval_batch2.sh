#!/bin/bash
# usage: eval_batch2.sh C16 C20 ...   evaluates /tmp/mw2-<ID>/out/m*/ (wave 2) against the check(s) of <ID>
cd /verif
for id in "$@"; do
  for d in /tmp/mw2-$id/out/m*/; do
    m=$(basename $d)
    [ -f $d/patch.diff ] || continue
    extra=""; checks="$id"
    if [ "$id" = "C16" ]; then extra="--race-demo"; fi
    if [ "$id" = "C12" ]; then checks="C11,C12,C13"; fi
    echo "=== w2-$id-$m"
    python3 tools/eval_mutant.py $d w2-$id-$m $id --checks $checks $extra 2>&1 | grep -E '^\s+C[0-9]+ |confirmed|demo_with|apply'
  done
done
