#!/bin/bash
cd /verif
for id in "$@"; do
  for d in /tmp/mw4-$id/out/m*/; do
    m=$(basename $d)
    [ -f $d/patch.diff ] || continue
    echo "=== w4-$id-$m"
    python3 tools/eval_mutant.py $d w4-$id-$m $id 2>&1 | grep -E '^\s+C[0-9]+ |"confirmed"|PASSES|apply'
  done
done
