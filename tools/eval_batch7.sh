#!/bin/bash
# Evaluates wave 7 (/tmp/w7-<ID>/out/m*/) — same steps as eval_batch4.sh.
cd /verif
for id in "$@"; do
  for d in /tmp/w7-$id/out/m*/; do
    m=$(basename $d)
    [ -f $d/patch.diff ] || continue
    echo "=== w7-$id-$m"
    python3 tools/eval_mutant.py $d w7-$id-$m $id 2>&1 | grep -E '^\s+C[0-9]+ |"confirmed"|PASSES|apply'
  done
done
