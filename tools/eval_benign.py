#!/usr/bin/env python3
"""Evaluate one BENIGN change (a change of go-openapi/analysis under which every property still holds)
against the checks: every check must stay silent (exit 0).

  tools/eval_benign.py <dir-with-patch.diff+notes.md> <name> --checks C01,C04 [--tier quick] [--seeds 1,2]

Steps (in a scratch git worktree of /repo under /tmp, removed at the end):
  1. patch applies and compiles; pinned suite passes with it
  2. VERIF_REPO=<scratch> ./check <ID> for every requested check/seed; records exit codes
  3. writes /verif/benign/<name>/{patch.diff,notes.md,meta.json}
"""
import argparse, json, os, shutil, subprocess, sys, time

VERIF = os.path.dirname(os.path.dirname(os.path.abspath(__file__)))
ENV = dict(os.environ, GOFLAGS="-mod=mod", GOPROXY="off", GOSUMDB="off", GOTOOLCHAIN="local")


def sh(cmd, cwd=None, env=None, timeout=3600):
    p = subprocess.run(cmd, cwd=cwd, env=env or ENV, shell=isinstance(cmd, str), stdout=subprocess.PIPE, stderr=subprocess.STDOUT, text=True, timeout=timeout)
    return p.returncode, p.stdout


def main():
    ap = argparse.ArgumentParser()
    ap.add_argument("dir")
    ap.add_argument("name")
    ap.add_argument("--checks", required=True)
    ap.add_argument("--tier", default="quick")
    ap.add_argument("--seeds", default="1")
    a = ap.parse_args()
    a.dir = os.path.abspath(a.dir)
    wt = "/tmp/evalb-" + a.name
    sh(["git", "-C", "/repo", "worktree", "remove", "--force", wt])
    rc, out = sh(["git", "-C", "/repo", "worktree", "add", "-q", "--detach", wt, "HEAD"])
    if rc:
        sys.exit("cannot create worktree: " + out)
    meta = {"name": a.name, "kind": "benign", "repo_head": sh(["git", "-C", "/repo", "rev-parse", "--short", "HEAD"])[1].strip(), "ran": []}
    try:
        patch = os.path.join(a.dir, "patch.diff")
        rc, out = sh(["git", "apply", patch], cwd=wt)
        if rc:
            rc, out3 = sh(["git", "apply", "--3way", patch], cwd=wt)
            if rc == 0 and "conflict" not in out3.lower():
                sh(["git", "reset", "-q"], cwd=wt)
                _, newdiff = sh(["git", "diff"], cwd=wt)
                if newdiff.strip():
                    open(patch, "w").write(newdiff)
                    meta["patch_rebased_onto"] = meta["repo_head"]
            else:
                rc, out = 1, out + out3
        ok = rc == 0
        if not ok:
            meta["apply"] = "FAILED: " + out[-300:]
        else:
            rc, out = sh(["go", "build", "./..."], cwd=wt)
            meta["compiles"] = rc == 0
            ok &= rc == 0
            rc, out = sh([os.path.join(VERIF, "baseline_off.sh"), wt])
            meta["pinned_suite_with_patch"] = out.strip().splitlines()[0] if out.strip() else "?"
            ok &= rc == 0
            sh(["git", "checkout", "--", "go.sum", "go.mod", "analysis_test/go.sum", "analysis_test/go.mod"], cwd=wt)
        meta["usable"] = bool(ok)
        if ok:
            for c in a.checks.split(","):
                for seed in a.seeds.split(","):
                    t0 = time.time()
                    rc, out = sh([os.path.join(VERIF, "check"), c, "--tier", a.tier, "--seed", seed], cwd=VERIF, env=dict(os.environ, VERIF_REPO=wt), timeout=6 * 3600)
                    line = [l for l in out.splitlines() if l.startswith("VIOLATION") or l.startswith("INCONCLUSIVE")][:1]
                    first = [l for l in out.splitlines() if l.startswith("--- ")][:1]
                    meta["ran"].append({"check": c, "tier": a.tier, "seed": int(seed), "exit": rc, "silent": rc == 0, "wall_s": round(time.time() - t0, 1),
                                        "report": (first[0][:600] if first else "") + (" | " + line[0][:200] if line else "")})
                    print("  %s %s seed=%s -> exit %d %s" % (c, a.tier, seed, rc, first[0][:300] if first else ""))
        out_dir = os.path.join(VERIF, "benign", a.name)
        os.makedirs(out_dir, exist_ok=True)
        for f in ("patch.diff", "notes.md"):
            if os.path.exists(os.path.join(a.dir, f)) and os.path.realpath(os.path.join(a.dir, f)) != os.path.realpath(os.path.join(out_dir, f)):
                shutil.copy(os.path.join(a.dir, f), os.path.join(out_dir, f))
        meta["alarms"] = sorted({r["check"] + "/" + r["tier"] for r in meta["ran"] if not r["silent"]})
        json.dump(meta, open(os.path.join(out_dir, "meta.json"), "w"), indent=1)
        print(json.dumps({k: v for k, v in meta.items() if k != "ran"}, indent=1))
    finally:
        sh(["git", "-C", "/repo", "worktree", "remove", "--force", wt])
        shutil.rmtree(wt, ignore_errors=True)


if __name__ == "__main__":
    main()
