#!/usr/bin/env python3
"""Evaluate one seeded change against the checks.

  tools/eval_mutant.py <dir-with-patch.diff+demo_test.go[+notes.md]> <name> <breaks-property> [--checks C01,C04] [--tier quick] [--seeds 1,2]

Steps (all in a scratch git worktree of /repo under /tmp, removed at the end):
  1. demo without the patch passes; patch applies and compiles; pinned suite passes with it; demo with the patch fails
  2. VERIF_REPO=<scratch> ./check <ID> for every requested check/seed; records exit codes
  3. writes /verif/seeded/<name>/{patch.diff,demo_test.go,notes.md,meta.json}
"""
import argparse, json, os, re, shutil, subprocess, sys, time

VERIF = os.path.dirname(os.path.dirname(os.path.abspath(__file__)))
ENV = dict(os.environ, GOFLAGS="-mod=mod", GOPROXY="off", GOSUMDB="off", GOTOOLCHAIN="local")


def sh(cmd, cwd=None, env=None, timeout=3600):
    p = subprocess.run(cmd, cwd=cwd, env=env or ENV, shell=isinstance(cmd, str), stdout=subprocess.PIPE, stderr=subprocess.STDOUT, text=True, timeout=timeout)
    return p.returncode, p.stdout


def demo_name(path):
    src = open(path).read()
    names = re.findall(r"^func (Test\w+)\(", src, re.M)
    pkg = re.search(r"^package (\w+)", src, re.M).group(1)
    return names, pkg


def run_demo(wt, demo, race=False):
    names, pkg = demo_name(demo)
    dst_dir = wt if pkg == "analysis" else os.path.join(wt, "analysis_test")
    dst = os.path.join(dst_dir, "zz_seeded_demo_test.go")
    shutil.copy(demo, dst)
    try:
        cmd = ["go", "test", "-count=1", "-run", "^(" + "|".join(names) + ")$", "."]
        if race:
            cmd.insert(2, "-race")
        rc, out = sh(cmd, cwd=dst_dir, timeout=900)
    finally:
        os.remove(dst)
    return rc, out[-1500:]


def main():
    ap = argparse.ArgumentParser()
    ap.add_argument("dir")
    ap.add_argument("name")
    ap.add_argument("prop")
    ap.add_argument("--checks")
    ap.add_argument("--tier", default="quick")
    ap.add_argument("--seeds", default="1")
    ap.add_argument("--race-demo", action="store_true")
    ap.add_argument("--needs", default="")
    a = ap.parse_args()
    a.dir = os.path.abspath(a.dir)
    checks = (a.checks or a.prop).split(",")
    wt = "/tmp/eval-" + a.name
    sh(["git", "-C", "/repo", "worktree", "remove", "--force", wt])
    rc, out = sh(["git", "-C", "/repo", "worktree", "add", "-q", "--detach", wt, "HEAD"])
    if rc:
        sys.exit("cannot create worktree: " + out)
    meta = {"name": a.name, "breaks_property": a.prop, "needs_to_manifest": a.needs, "repo_head": sh(["git", "-C", "/repo", "rev-parse", "--short", "HEAD"])[1].strip(), "ran": []}
    ok = True
    try:
        patch, demo = os.path.join(a.dir, "patch.diff"), os.path.join(a.dir, "demo_test.go")
        rc, out = run_demo(wt, demo, a.race_demo)
        meta["demo_without_patch"] = "pass" if rc == 0 else "FAIL"
        ok &= rc == 0
        rc, out = sh(["git", "apply", patch], cwd=wt)
        if rc:
            # the repository moved on since the patch was written: three-way merge it, and if that is clean
            # rewrite patch.diff against the current HEAD so that `git -C /repo apply` keeps working
            rc, out3 = sh(["git", "apply", "--3way", patch], cwd=wt)
            if rc == 0 and "conflict" not in out3.lower():
                sh(["git", "reset", "-q"], cwd=wt)
                _, newdiff = sh(["git", "diff"], cwd=wt)
                if newdiff.strip():
                    open(patch, "w").write(newdiff)
                    meta["patch_rebased_onto"] = meta["repo_head"]
            else:
                rc, out = 1, out + out3
        if rc:
            meta["apply"] = "FAILED: " + out[-300:]
            ok = False
        else:
            rc, out = sh(["go", "build", "./..."], cwd=wt)
            meta["compiles"] = rc == 0
            ok &= rc == 0
            rc, out = sh([os.path.join(VERIF, "baseline_off.sh"), wt])
            meta["pinned_suite_with_patch"] = out.strip().splitlines()[0] if out.strip() else "?"
            ok &= rc == 0
            rc, out = run_demo(wt, demo, a.race_demo)
            meta["demo_with_patch"] = "fail (as intended)" if rc != 0 else "PASSES (demo does not show the change)"
            ok &= rc != 0
            sh(["git", "checkout", "--", "go.sum", "go.mod", "analysis_test/go.sum", "analysis_test/go.mod"], cwd=wt)
        meta["confirmed"] = bool(ok)
        if ok:
            for c in checks:
                for seed in a.seeds.split(","):
                    t0 = time.time()
                    rc, out = sh([os.path.join(VERIF, "check"), c, "--tier", a.tier, "--seed", seed], cwd=VERIF, env=dict(os.environ, VERIF_REPO=wt), timeout=6 * 3600)
                    line = [l for l in out.splitlines() if l.startswith("VIOLATION") or l.startswith("INCONCLUSIVE")][:1]
                    first = [l for l in out.splitlines() if l.startswith("--- ")][:1]
                    meta["ran"].append({"check": c, "tier": a.tier, "seed": int(seed), "exit": rc, "detected": rc == 1, "wall_s": round(time.time() - t0, 1),
                                        "report": (first[0][:400] if first else "") + (" | " + line[0][:200] if line else "")})
                    print("  %s %s seed=%s -> exit %d %s" % (c, a.tier, seed, rc, first[0][:160] if first else ""))
        out_dir = os.path.join(VERIF, "seeded", a.name)
        os.makedirs(out_dir, exist_ok=True)
        for f in ("patch.diff", "demo_test.go", "notes.md"):
            if os.path.exists(os.path.join(a.dir, f)) and os.path.realpath(os.path.join(a.dir, f)) != os.path.realpath(os.path.join(out_dir, f)):
                shutil.copy(os.path.join(a.dir, f), os.path.join(out_dir, f))
        old = {}
        mp = os.path.join(out_dir, "meta.json")
        if os.path.exists(mp):
            old = json.load(open(mp))
            meta["ran"] = (old.get("ran", []) if not os.environ.get("VERIF_SWEEP") else []) + meta["ran"]
            for k in ("needs_to_manifest", "written_by"):
                if not meta.get(k):
                    meta[k] = old.get(k, "")
            if old.get("breaks_property"):
                meta["breaks_property"] = old["breaks_property"]
        meta["detected_by"] = sorted({r["check"] + "/" + r["tier"] for r in meta["ran"] if r["detected"]})
        json.dump(meta, open(mp, "w"), indent=1)
        print(json.dumps({k: v for k, v in meta.items() if k != "ran"}, indent=1))
    finally:
        sh(["git", "-C", "/repo", "worktree", "remove", "--force", wt])
        shutil.rmtree(wt, ignore_errors=True)


if __name__ == "__main__":
    main()
