#!/usr/bin/env python3
"""Writes /verif/MANIFEST.json from the table below (kept next to the driver so the two agree)."""
import json, os

VERIF = os.path.dirname(os.path.dirname(os.path.abspath(__file__)))

TECH = {
    "C01": "rapid PBT over generated $ref bundles; oracle = coinductive bisimulation of the $ref-unfolded documents before/after Flatten (independent resolver)",
    "C02": "rapid PBT over generated bundles; oracle = independent walk classifying every $ref of the output by holder kind and checking canonical '#/definitions/<existing>' form",
    "C03": "rapid PBT over generated bundles (name pool biased to generated-looking names); oracle = independent complexity predicate at every schema position + case-folded name uniqueness",
    "C04": "rapid PBT over generated well-formed bundles x option sets; oracle = nil result (no error/panic/crash/hang, worker-process attribution) and the C01-C03/C05/C06 oracles",
    "C05": "rapid PBT, Expand mode; oracle = independent $ref-graph cycle decision on the whole bundle, residual-ref scan, bisimulation, byte-reproducibility",
    "C06": "rapid PBT, RemoveUnused; oracle = independent reference scan (every kept definition referenced, nothing dangling, shared sections empty), bisimulation, CPU-time termination watchdog",
    "C07": "metamorphic PBT: repeated runs from identical bytes and from key-permuted bytes (fresh maps, worker restart, second Go toolchain in thorough) must be byte-identical",
    "C08": "round-trip PBT: flatten the serialised output again with the same options; must succeed and be byte-identical",
    "C09": "rapid PBT over W and W+ bundles with exhaustive per-case enumeration of k-th-load faults (two shapes), worker-process crash/hang attribution; native go fuzzing of loadable documents in thorough",
    "C10": "differential PBT: every public getter of the Spec passed to Flatten vs a fresh analysis.New of the rewritten document",
    "C11": "rapid PBT over generated API documents; oracle = independent walker multisets of $refs by kind vs the analyzer's reference getters",
    "C12": "rapid PBT over generated API documents over the odd-name alphabet; oracle = independent pointer resolution of every SchemaRef + set of schema positions from an independent walk",
    "C13": "rapid PBT with patterns/enums planted by owner kind; oracle = reference model (independent walk) compared by exact map equality",
    "C14": "rapid PBT over generated API documents; oracle = reference model of the documented precedence/union decision tables",
    "C15": "rapid PBT over documents with inline/$ref/dangling parameters; oracle = reference model of the merge rule, callback protocol and panic contract",
    "C16": "rapid-generated concurrent query schedules executed under the Go race detector; oracle = sequential answers, document bytes before/after, mutation of returned maps",
    "C17": "model-based PBT: executable reference model of the documented Mixin merge rules vs the merged document and the warning count",
    "C18": "model-based PBT with operation-id collisions under every method; oracle = uniqueness + rename-only-on-collision invariant",
    "C19": "model-based PBT: reference model of the fixer on generic JSON; idempotence; no panic",
    "C20": "rapid PBT over the schema grammar incl. recursive containers; oracle = coherence invariants, $ref transparency (metamorphic), independent classifier of the generated kind, termination watchdog",
}

DESIGN = {k: "DESIGN.md section 5, " + k for k in TECH}

LEVEL_TEXT = (
    "Exploration: generated-input search (pgregory.net/rapid, seeded, sharded over 16 cores) against an explicit independent oracle; "
    "every failure is shrunk, saved as a materialised replay file and confirmed through a rapid-free replay path before it is reported. "
    "It decides the property on every generated case and never proves absence beyond the generator bounds."
)
LEVEL_NOTE = (
    "Trusted: go-openapi/spec (model, ExpandSpec, resolver), swag, jsonpointer as given; the worker glue that serialises the library's answers; "
    "the oracles' reading of the property statement (validated against the code on 20k cases per model, see DESIGN.md section 8). "
    "Bounds: schema depth <= 3 (quick) / 4 (thorough), <= 3 auxiliary documents, <= ~10 definitions per document."
)

# properties whose check is built and claimed
BUILT = os.environ.get("VERIF_BUILT", "").split(",") if os.environ.get("VERIF_BUILT") else None


def main():
    built_file = os.path.join(VERIF, "tools", "built.txt")
    built = [l.strip() for l in open(built_file) if l.strip()] if os.path.exists(built_file) else []
    checks = []
    for pid in sorted(TECH):
        if pid not in built:
            continue
        level = "fault_enumeration" if pid == "C09" else "exploration"
        checks.append({
            "property_id": pid,
            "quick_cmd": "./check %s --tier quick" % pid,
            "thorough_cmd": "./check %s --tier thorough" % pid,
            "evidence_file": "/verif/evidence/%s.json" % pid,
            "replay_cmd_template": "./check %s --replay {path}" % pid,
            "engine": "rapid-harness",
            "level_claimed": {"category": level, "text": LEVEL_TEXT, "design_ref": DESIGN[pid]},
            "level_note": LEVEL_NOTE,
            "technique": TECH[pid],
        })
    na = [{"property_id": pid, "reason": "check not built yet in this session (planned: %s)" % TECH[pid][:80]} for pid in sorted(TECH) if pid not in built]
    m = {
        "version": 1,
        "setup_cmd": "./setup.sh",
        "hooks": {
            "guard": "verif",
            "enable": "none needed: the checks observe go-openapi/analysis through its public API and spec.PathLoader; no source hook exists (build tag 'verif' is reserved and unused)",
            "baseline_off_cmd": "./baseline_off.sh",
            "source_commits": [],
            "add_only": True,
        },
        "engines": [{
            "name": "rapid-harness",
            "path": "/verif/harness",
            "serves_properties": [c["property_id"] for c in checks],
            "kind_free_text": "Go module: rapid v1.3.0 generators + independent oracles in the property process, code under test in a supervised worker process (in-memory VFS, k-th-load fault plan, CPU-time watchdog, stack cap); Python driver ./check shards, confirms, writes evidence",
        }],
        "checks": checks,
        "notes": "See DESIGN.md. known_findings.json lists repaired (fixed:) and open findings; corpus/<ID>/ holds shrunk regression cases replayed first in every run.",
        "not_applicable": na,
    }
    with open(os.path.join(VERIF, "MANIFEST.json"), "w") as f:
        json.dump(m, f, indent=1)
        f.write("\n")
    print("MANIFEST.json: %d checks, %d not_applicable" % (len(checks), len(na)))


if __name__ == "__main__":
    main()
