#!/bin/bash
# Re-evaluates every seeded change against the current harness and /repo HEAD (quick tier, seed 1),
# rewriting seeded/<name>/meta.json ("ran" holds this sweep only). ~1-2 min per change.
cd /verif
export VERIF_SWEEP=1
for d in seeded/*/; do
  name=$(basename $d)
  prop=$(python3 -c "import json;m=json.load(open('$d/meta.json'));print(m['breaks_property'])")
  checks=$(python3 -c "import json;m=json.load(open('$d/meta.json'));c=sorted({x.split('/')[0] for x in m.get('detected_by',[])}|{m['breaks_property']});print(','.join(c))")
  extra=""; case $name in *C16*) extra="--race-demo";; esac
  echo "=== $name ($checks)"
  python3 tools/eval_mutant.py $d $name $prop --checks $checks $extra 2>&1 | grep -E '^\s+C[0-9]+ |"confirmed"|PASSES'
done
